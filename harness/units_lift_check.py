# units_lift_check.py — case stream `lift` of the check C08 (harness/c08.py): UnitsLift.v against rtamt.
#
# Seeded random specifications whose temporal bounds are spelled in random unit notations (literals with / without units, also
# with exponents, one-sided units, declared constants with / without units, undeclared / non-numeric / negative constants,
# inverted and off-grid intervals, `unless`, bounds around sys.maxsize sampling periods and around the float range), random
# default unit and sampling period (integer or float text, any unit).  For each specification
#   rtamt : through harness/impl.py case dicts only: the call ['bounds_log'] wraps time_unit_transformer of the interpreter of
#           that one specification object by a logger; then one evaluate() / update() of the discrete offline, discrete online,
#           dense offline, dense online monitor (for specifications with future operators also pastify() and one update() of the
#           discrete online monitor); a second ['bounds_log'] returns the sequence of bounds the method returned, or the class
#           of the first exception it raised;
#   model : command `unitslift` of the extracted driver: parse_bounds, normalize_log, normalize_dense of UnitsLift.v and the
#           bounds of pastify (normalize ...) followed by the bounds of normalize ... (check_pastified_bounds).
# Compared exactly: stage (parse() or later) and class of the failure, order and values of all converted bounds (discrete: Python
# ints; dense: by value, float(model Fraction) when the bound is not a whole number of default units).
import json
import sys
from fractions import Fraction
from harness.common import parse_fields

U = {'s': 10**9, 'ms': 10**6, 'us': 10**3, 'ns': 1}
MAXSIZE = sys.maxsize
FOVER = 2**1024 - 2**970
KINDS = {'doff': 'discrete-offline', 'don': 'discrete-online', 'eoff': 'dense-offline', 'eon': 'dense-online', 'dpast': 'discrete-online'}


def dec(q):
    """exact decimal literal of a non-negative Fraction whose denominator divides a power of ten"""
    q = Fraction(q)
    if q.denominator == 1:
        return str(q.numerator)
    k = 0
    while (q * 10**k).denominator != 1:
        k += 1
        assert k < 60
    s = str(int(q * 10**k)).rjust(k + 1, '0')
    return s[:-k] + '.' + s[-k:]


def sx_q(q):
    q = Fraction(q)
    return '%d %d' % (q.numerator, q.denominator)


class Gen(object):
    def __init__(self, rng):
        self.rng = rng

    def settings(self):
        rng = self.rng
        du = rng.choice(list(U))
        pns = rng.choice([10**9, 5 * 10**8, 25 * 10**7, 2 * 10**9, 10**5, 20, 10**6, 333 * 10**5, 166 * 10**5, 41 * 10**8, 67 * 10**6, 1, 3, 7 * 10**3])
        alts = [(pns // U[u], u) for u in U if pns % U[u] == 0]
        for u in U:
            if pns % U[u]:
                x = pns / U[u]
                if Fraction(repr(x)) * U[u] == pns:
                    alts.append((x, u))
        p, pu = rng.choice(alts)
        return du, p, pu, pns

    def spell(self, ns, unit):
        """literal text of ns nanoseconds in the unit (exact), sometimes with an exponent or a trailing zero"""
        q = Fraction(ns) / U[unit]
        r = self.rng.random()
        if r < 0.08 and q != 0:
            k = self.rng.choice([1, 2, 3])
            return dec(q / 10**k) + 'e%s%d' % (self.rng.choice(['', '+']), k)
        if r < 0.14:
            k = self.rng.choice([1, 2])
            t = dec(q * 10**k)
            return t + ('.0' if '.' not in t else '') + 'e-%d' % k
        if r < 0.2 and q.denominator == 1:
            return dec(q) + '.0'
        return dec(q)

    def bound(self, du, pns, ctx):
        """-> (text of the interval, s-expression of the ubound)"""
        rng = self.rng
        r = rng.random()
        bk = rng.choice([0, 0, 1, 1, 2, 3])
        ek = bk + rng.choice([0, 0, 1, 2, 3])
        b_ns, e_ns = bk * pns, ek * pns
        if r < 0.12 and pns > 1:                 # off the grid
            d = rng.choice([1, pns // 2, pns - 1])
            w = rng.random()
            if w < 0.35:
                e_ns += d
            elif w < 0.7:
                b_ns += d
                e_ns += d
            else:
                b_ns += d
                e_ns += pns
            ctx['feat'].add('offgrid')
        elif r < 0.16:                           # inverted interval
            b_ns, e_ns = e_ns + rng.choice([1, pns]), b_ns
            ctx['feat'].add('inverted')
        elif r < 0.40 and ctx['big']:            # around sys.maxsize sampling periods / around the float range
            if rng.random() < 0.5:
                e_ns = (MAXSIZE + rng.choice([-2, -1, 0, 1])) * pns
                ctx['feat'].add('maxsize')
            else:
                # whole numbers of default units stay Python ints; halves become floats (or overflow)
                e_ns = (FOVER + rng.choice([-1, 0, 1, -2**970]) + rng.choice([0, Fraction(1, 2), Fraction(-1, 2)])) * U[du]
                if rng.random() < 0.5:
                    b_ns = e_ns
                ctx['feat'].add('floatrange')
        style = rng.choice(['both', 'both', 'end', 'begin', 'none', 'none'])
        ctx['feat'].add('units_' + style)
        if style == 'none':
            ub = ue = None
            rb = re_ = du
        elif style == 'both':
            ub, ue = rng.choice(list(U)), rng.choice(list(U))
            rb, re_ = ub, ue
        elif style == 'end':
            ub, ue = None, rng.choice(list(U))
            rb = re_ = ue
        else:
            ub, ue = rng.choice(list(U)), None
            rb = re_ = ub
        ends = []
        for (ns, ru, uu) in ((b_ns, rb, ub), (e_ns, re_, ue)):
            q = Fraction(ns) / U[ru]
            c = rng.random()
            if c < 0.2:
                nm = 'k%d' % len(ctx['consts'])
                if c < 0.015:
                    nm = 'undecl%d' % len(ctx['consts'])
                    ctx['feat'].add('const_undeclared')
                elif c < 0.03:
                    ctx['consts'].append([nm, rng.choice(['inf', 'abc', 'nan', '1e2000']), None])
                    ctx['feat'].add('const_not_a_bound')
                elif c < 0.045:
                    q = -q - rng.choice([0, 1])
                    ctx['consts'].append([nm, '-' + dec(-q), sx_q(q)])
                    ctx['feat'].add('const_negative')
                else:
                    ctx['consts'].append([nm, self.spell(ns, ru), sx_q(q)])
                    ctx['feat'].add('const')
                txt = nm + (' ' + uu if uu else '')
                sx = '(id %s)' % nm
            else:
                txt = self.spell(ns, ru) + (uu if uu else '')
                sx = '(lit %s)' % sx_q(q)
            ends.append((txt, sx))
        text = '[%s%s%s]' % (ends[0][0], rng.choice([',', ':']), ends[1][0])
        return text, '(%s %s %s %s)' % (ends[0][1], ub or '_', ends[1][1], ue or '_')

    def leaf(self, ctx):
        rng = self.rng
        v = rng.choice([0, 1])
        ctx['used'].add(v)
        c = rng.choice([0, 1, 2, 3])
        op, cop = rng.choice([('>=', 'geq'), ('<=', 'leq'), ('>', 'gt'), ('<', 'lt')])
        return '(%s %s %d)' % ('ab'[v], op, c), '(pred %s (var %d) (const %d))' % (cop, v, c)

    def formula(self, depth, du, pns, ctx):
        rng = self.rng
        if depth == 0 or rng.random() < 0.15:
            return self.leaf(ctx)
        r = rng.random()
        if r < 0.35:
            ops = [('once', 'oncet'), ('historically', 'histt')] + ([] if ctx['past'] else [('eventually', 'evt'), ('always', 'alwt')])
            t, c = rng.choice(ops)
            ft, fc = self.formula(depth - 1, du, pns, ctx)
            bt, bc = self.bound(du, pns, ctx)
            return '(%s%s %s)' % (t, bt, ft), '(unt %s %s %s)' % (c, bc, fc)
        if r < 0.55:
            ops = [('since', 'sincet')] + ([] if ctx['past'] else [('until', 'untilt'), ('unless', None)])
            t, c = rng.choice(ops)
            ft, fc = self.formula(depth - 1, du, pns, ctx)
            gt, gc = self.formula(depth - 1, du, pns, ctx)
            bt, bc = self.bound(du, pns, ctx)
            if c is None:
                ctx['feat'].add('unless')
                return '(%s unless%s %s)' % (ft, bt, gt), '(unless %s %s %s)' % (bc, fc, gc)
            return '(%s %s%s %s)' % (ft, t, bt, gt), '(bint %s %s %s %s)' % (c, bc, fc, gc)
        if r < 0.75:
            ops = [('not', 'not'), ('once', 'once'), ('historically', 'hist'), ('prev', 'prev'), ('rise', 'rise')]
            if not ctx['past']:
                ops += [('next', 'next')]
            t, c = rng.choice(ops)
            if t in ('prev', 'rise', 'next'):
                ctx['nodense'] = True
            ft, fc = self.formula(depth - 1, du, pns, ctx)
            if t == 'rise':
                return '(rise(%s))' % ft, '(un %s %s)' % (c, fc)
            return '(%s %s)' % (t, ft), '(un %s %s)' % (c, fc)
        t = rng.choice(['and', 'or', 'since', 'implies'])
        ft, fc = self.formula(depth - 1, du, pns, ctx)
        gt, gc = self.formula(depth - 1, du, pns, ctx)
        return '(%s %s %s)' % (ft, t, gt), '(bin %s %s %s)' % (t, fc, gc)

    def case(self):
        rng = self.rng
        du, p, pu, pns = self.settings()
        ctx = {'past': rng.random() < 0.6, 'big': rng.random() < 0.25}
        while True:
            ctx.update(consts=[], used=set(), nodense=False, feat=set())
            text, sx = self.formula(rng.choice([1, 2, 2, 3]), du, pns, ctx)
            if '[' in text:
                break
        kinds = ['doff', 'eoff'] + (['don', 'eon'] if ctx['past'] else [])
        if not ctx['past'] and not ctx['big']:
            kinds.append('dpast')
        if ctx['nodense'] and not ctx['big']:
            kinds = [k for k in kinds if k[0] == 'd']       # the dense monitors have no prev / next / rise
        ce = ' '.join('(%s %s)' % (n, q if q is not None else 'none') for (n, _, q) in ctx['consts'])
        line = '(unitslift %d %s (%s) %s (%s) %s)' % (1 if (ctx['big'] or ctx['past']) else 0, du, sx_q(Fraction(str(p))), pu, ce, sx)
        return {'lift': 1, 'unit': du, 'period': [p, pu, 0.1], 'text': text, 'model_line': line, 'consts': [[n, t] for (n, t, _) in ctx['consts']],
                'used': sorted(ctx['used']), 'big': ctx['big'], 'kinds': kinds, 'ctor': rng.choice(['split', None]),
                'feat': sorted(ctx['feat'] | {'unit_' + du, 'period_' + pu, 'huge_bounds' if ctx['big'] else 'ordinary_bounds'})}


def expect(m, kind):
    """what the model says rtamt does for this monitor kind: {'parse': ok|rtamt|crash, 'fail': None|class, 'log': [(b, e)]}"""
    code = lambda k: {'0': 'ok', '1': 'rtamt', '2': 'crash'}[m[k][0]]
    if code('PARSE') != 'ok':
        return {'parse': code('PARSE'), 'log': None, 'fail': None}
    key = 'PAST' if kind == 'dpast' else ('DISC' if kind[0] == 'd' else 'DENSE')
    if code(key) != 'ok':
        return {'parse': 'ok', 'log': None, 'fail': code(key)}
    v = [int(x) for x in m[key][1:]]
    if key == 'DENSE':
        log = [(Fraction(v[i], v[i + 1]), Fraction(v[i + 2], v[i + 3])) for i in range(0, len(v), 4)]
    else:
        log = [(Fraction(v[i]), Fraction(v[i + 1])) for i in range(0, len(v), 2)]
    return {'parse': 'ok', 'log': log, 'fail': None}


def same_bound(kind, got, want):
    """one end of one bound: got = (exact text, type name) from rtamt, want = the Fraction of the model"""
    x, ty = Fraction(got[0]), got[1]
    if kind[0] == 'd':
        return ty == 'int' and x == want
    if want.denominator == 1:
        return (ty == 'int' and x == want) or (ty == 'float' and x == Fraction(float(want)))
    return ty == 'float' and x == Fraction(float(want))


class Lift(object):
    RULE = ('stream lift: seeded random specifications with every bound in a random unit notation (literals, exponents, one-sided units, '
            'declared constants, undeclared / non-numeric / negative constants, inverted and off-grid intervals, unless, bounds around '
            'sys.maxsize periods and around the float range; 14 periods as int or float text in any unit; 4 default units): the sequence of '
            'bounds time_unit_transformer returns inside evaluate() / update() of the four monitors and after pastify(), or the stage and '
            'class of the first exception, must be what UnitsLift.v computes (parse_bounds, normalize_log, normalize_dense, pastify of normalize)')

    def __init__(self):
        self.stats = {}

    def count(self, k, n=1):
        self.stats[k] = self.stats.get(k, 0) + n

    def gen(self, rng, tier):
        g = Gen(rng)
        return [g.case() for _ in range(200 if tier == 'quick' else 4000)]

    def model_lines(self, c):
        return [c['model_line']]

    def impl_cases(self, c):
        out = []
        names = ['a', 'b']
        for kind in c['kinds']:
            case = {'monitor': KINDS[kind], 'vars': names, 'spec': 'out = ' + c['text'], 'unit': c['unit'],
                    'consts': [[n, 'float', t] for (n, t) in c['consts']]}
            if c.get('ctor'):
                case['ctor'] = c['ctor']
            if kind[0] == 'd':
                case['period'] = c['period']
            if c['big']:
                case['calls'] = [['bounds_log', 'direct']]
            else:
                if kind == 'doff':
                    data = {'time': [0, 1, 2]}
                    for v in names:
                        data[v] = [1.0, 2.0, 0.0]
                    run = [['evaluate', data]]
                elif kind in ('don', 'dpast'):
                    run = [['update', 0, [[names[v], 1.0] for v in c['used']]]]
                    if kind == 'dpast':
                        run = [['pastify']] + run
                else:
                    run = [['evaluate' if kind == 'eoff' else 'update', [[names[v], [[0, 1.0], [1, 2.0], [2, 0.0]]] for v in c['used']]]]
                case['calls'] = [['bounds_log']] + run + [['bounds_log']]
            out.append(case)
        return out

    def judge(self, c, mlines, ires):
        m = parse_fields(mlines[0])
        if 'ERROR' in m:
            return 'model-error', mlines
        for kind, r in zip(c['kinds'], ires):
            e = expect(m, kind)
            det = {'shape': 'lift', 'monitor': kind, 'spec': c['text'], 'unit': c['unit'], 'period': c['period'], 'consts': c['consts']}
            self.count('comparisons')
            if r['setup']['status'] != 'ok' or e['parse'] != 'ok':
                self.count('rejected_by_parse')
                if r['setup']['status'] != e['parse']:
                    return 'violation', dict(det, what='parse()', expected=e['parse'], observed=r['setup'])
                continue
            last = r['calls'][-1] if r['calls'] else {'status': 'missing'}
            if last.get('status') != 'ok' or not isinstance(last.get('value'), dict):
                return 'violation', dict(det, what='bounds_log', expected='a log', observed=last)
            log, fail = last['value']['log'], last['value']['fail']
            if fail is not None or e['fail'] is not None:
                self.count('rejected_by_the_interpreter:' + kind)
                if (fail or 'none').split(':')[0] != (e['fail'] or 'none'):
                    return 'violation', dict(det, what='first exception of time_unit_transformer', expected=e['fail'], observed={'fail': fail, 'log': log})
                continue
            want = e['log']
            other = [x for x in r['calls'][:-1] if x.get('status') != 'ok']
            if other:
                # the evaluation stopped for another reason (an operator the monitor does not have): the bounds converted so far
                self.count('stopped_early')
                want = want[:len(log)]
            if len(log) != len(want) or not all(same_bound(kind, (g[0], g[2]), w[0]) and same_bound(kind, (g[1], g[3]), w[1]) for g, w in zip(log, want)):
                return 'violation', dict(det, what='converted bounds, in order', expected=[[str(a), str(b)] for a, b in want], observed=log)
            self.count('logs_equal:' + kind)
            self.count('bounds_compared', len(log))
        return 'ok', None

    def signature(self, c, detail):
        d = detail if isinstance(detail, dict) else {}
        return {'shape': 'lift', 'monitor': d.get('monitor'), 'what': d.get('what')}

    def key(self, c):
        return json.dumps([c['text'], c['unit'], c['period'], c['consts'], c['kinds']])

    def nontrivial(self, c):
        return True

    def features(self, c):
        return ['lift'] + ['lift:' + f for f in c.get('feat', [])]

    def describe(self, c):
        return {'stream': 'lift', 'spec': c['text'], 'unit': c['unit'], 'period': c['period'], 'consts': c['consts'], 'monitors': c['kinds']}


def extend(cls, extra):
    """A subclass of the check `cls` that also runs the case stream `extra` (cases flagged lift=1)."""

    class Ext(cls):
        RULE = cls.RULE + ' || ' + extra.RULE

        def gen_cases(self, rng, tier):
            # (the other streams draw from rng as before; this one comes first so that its few signature groups are reported
            # before the report limit is reached)
            import random
            base = cls.gen_cases(self, rng, tier)
            return extra.gen(random.Random(rng.randrange(1 << 62)), tier) + base

        def load_case(self, c):
            return dict(c) if c.get('lift') else cls.load_case(self, c)

        def normalize(self, c):
            return c if c.get('lift') else cls.normalize(self, c)

        def cheap(self, c):
            return True if c.get('lift') else cls.cheap(self, c)

        def model_lines(self, c):
            return extra.model_lines(c) if c.get('lift') else cls.model_lines(self, c)

        def impl_cases(self, c):
            return extra.impl_cases(c) if c.get('lift') else cls.impl_cases(self, c)

        def replay_cases(self, c):
            return extra.impl_cases(c) if c.get('lift') else cls.replay_cases(self, c)

        def judge(self, c, mlines, ires):
            return extra.judge(c, mlines, ires) if c.get('lift') else cls.judge(self, c, mlines, ires)

        def signature(self, c, detail):
            return extra.signature(c, detail) if c.get('lift') else cls.signature(self, c, detail)

        def key(self, c):
            return extra.key(c) if c.get('lift') else cls.key(self, c)

        def nontrivial(self, c):
            return extra.nontrivial(c) if c.get('lift') else cls.nontrivial(self, c)

        def features(self, c):
            return extra.features(c) if c.get('lift') else cls.features(self, c)

        def describe(self, c):
            return extra.describe(c) if c.get('lift') else cls.describe(self, c)

        def extra_evidence(self):
            ev = dict(cls.extra_evidence(self))
            ev['stream_lift'] = dict(extra.stats)
            return ev

    Ext.__name__ = cls.__name__
    return Ext
