# c08.py — C08: temporal bounds denote durations whatever the unit notation.
import json
from fractions import Fraction
from harness import fml
from harness.common import parse_fields
from harness.runner import Check, need_vars, expect_vals

U = {'s': 10**9, 'ms': 10**6, 'us': 10**3, 'ns': 1}


def dec(ns, unit):
    """exact decimal literal of ns nanoseconds in the given unit"""
    q = Fraction(ns, U[unit])
    if q.denominator == 1:
        return str(q.numerator)
    k = 0
    d = q.denominator
    while d % 10 == 0:
        d //= 10
        k += 1
    digits = len(str(U[unit])) - 1
    s = str(int(q * 10**digits)).rjust(digits + 1, '0')
    out = s[:-digits] + '.' + s[-digits:]
    out = out.rstrip('0')
    if out.endswith('.'):
        out += '0'
    return out


def spell_bound(rng, b_ns, e_ns, default_unit, style=None):
    """one of the equivalent spellings of [b_ns, e_ns]; a forced style uses units other than the default unit"""
    units = [u for u in U if u != default_unit] if style else list(U)
    style = style or rng.choice(['both', 'both', 'end', 'begin', 'none'])
    sep = rng.choice([',', ':'])
    if style == 'none':
        return '[%s%s%s]' % (dec(b_ns, default_unit), sep, dec(e_ns, default_unit)), style
    ub, ue = rng.choice(units), rng.choice(units)
    if style == 'both':
        return '[%s%s%s%s%s]' % (dec(b_ns, ub), ub, sep, dec(e_ns, ue), ue), style
    if style == 'end':       # begin inherits the unit of end
        return '[%s%s%s%s]' % (dec(b_ns, ue), sep, dec(e_ns, ue), ue), style
    return '[%s%s%s%s]' % (dec(b_ns, ub), ub, sep, dec(e_ns, ub)), style     # end inherits the unit of begin


def period_alts(pns):
    """the equivalent ways of giving a period of pns nanoseconds: an integer number of a smaller unit, or a float number of a larger
    unit when the decimal notation of that float denotes the period exactly (0.5 s, 0.25 s, 33.3 ms, 0.0333 s, 0.02 us)"""
    alts = [(pns // U[u], u) for u in U if pns % U[u] == 0]
    for u in U:
        if pns % U[u]:
            x = pns / U[u]
            # the float whose shortest decimal notation denotes the period exactly (33.3 ms = 33300 us, 0.5 s = 500 ms)
            if Fraction(repr(x)) * U[u] == pns:
                alts.append((x, u))
    return alts


def spelling(rng, f):
    """an equivalent spelling of every bound of f with explicit units / another default unit / a sampling period in another unit:
    {'spec': text, 'period': [p, unit, tol], 'unit': default unit}; None when f has no bounded operator"""
    if not (fml.ops(f) & (fml.TUN | fml.TBIN)):
        return None
    periods = [(1, 's'), (500, 'ms'), (250, 'ms'), (2, 's'), (100, 'us'), (1000, 'ms'), (20, 'ns'), (1, 'ms'), (33300, 'us'), (16600, 'us'), (4100, 'ms'), (67, 'ms'), (100, 'ms')]
    p, pu = rng.choice(periods)
    pns = p * U[pu]
    period = rng.choice(period_alts(pns))
    default_unit = rng.choice(list(U))
    text = fml.to_text(f, lambda b, e: spell_bound(rng, b * pns, e * pns, default_unit)[0])
    return {'spec': 'out = ' + text, 'period': [period[0], period[1], 0.1], 'unit': default_unit, 'fkey': fml.to_sx(f)}


class C08(Check):
    PID = 'C08'
    RULE = ('seeded random formulas with bounded operators; sampling period drawn from {1s, 500ms, 250ms, 2s, 100us, ...} and every bound (in samples) '
            'rewritten in several equivalent spellings (unit on both ends / only end / only begin / none with the default unit; units s, ms, us, ns; '
            'period given in another unit, also as a float such as 0.5 s); all spellings must give the result of the model with the bounds in samples, offline, online and (bounded future) offline and online '
            'after pastify; bounds that are not multiples of the period must raise RTAMTException; non-trivial = at least one bounded operator and one '
            'non-default spelling; distinct by (formula, spellings, period, data)')

    def gen_cases(self, rng, tier):
        cases = []
        nrand = 220 if tier == 'quick' else 3000
        periods = [(1, 's'), (500, 'ms'), (250, 'ms'), (2, 's'), (100, 'us'), (1000, 'ms'), (1000000, 'us'), (20, 'ns'), (1, 'ms'), (33300, 'us'), (16600, 'us'), (4100, 'ms'), (67, 'ms'), (100, 'ms')]
        P = ('pred', 'geq', ('var', 0), ('const', 1))
        for i in range(nrand):
            nv = rng.choice([1, 2])
            g = fml.Gen(rng, nvars=nv, untimed=(rng.random() < 0.3), unbounded_future=False, prevnext=(rng.random() < 0.4), maxb=3)
            f = g.formula(rng.choice([1, 2, 2, 3]))
            if rng.random() < 0.4:
                f = fml.add_unless(rng, f, 0.7)
            if i < 16:
                f = [('oncet', 1, 2, P), ('histt', 0, 3, P), ('evt', 1, 2, P), ('alwt', 2, 2, P), ('sincet', 0, 2, P, ('not', P)),
                     ('untilt', 1, 3, P, ('not', P)), ('and', ('next', P), ('oncet', 0, 1, P)), ('unlesst', 0, 3, P, ('not', P))][i % 8]
            if not (fml.ops(f) & (fml.TUN | fml.TBIN)) or fml.size(f) > 30:
                continue
            nv = need_vars(f, nv)
            p, pu = rng.choice(periods)
            # equivalent way of giving the same period
            pns = p * U[pu]
            period = rng.choice(period_alts(pns))
            default_unit = rng.choice(list(U))
            n = rng.choice([1, 2, 4, 7, 10])
            cols = fml.gen_trace(rng, nv, n)
            kind = 'ok' if rng.random() < 0.8 else 'reject'
            variants = []
            for v in range(3):
                styles = []
                bad = [False]

                forced = ['begin', 'end', 'both'][v] if i < 16 else None      # the fixed formulas in every one-sided notation

                def bound(b, e, styles=styles, bad=bad, forced=forced):
                    b_ns, e_ns = b * pns, e * pns
                    if kind == 'reject' and not bad[0] and pns > 1:
                        bad[0] = True
                        r = rng.random()
                        if r < 0.35:
                            e_ns += rng.choice([1, pns // 2 if pns >= 2 else 1])
                        elif r < 0.7:
                            # both ends off the grid by the same amount: the width of the window is still a multiple of the period
                            d = rng.choice([1, pns // 2 if pns >= 2 else 1])
                            b_ns += d
                            e_ns += d
                        else:
                            b_ns += 1
                            e_ns += pns
                    txt, st = spell_bound(rng, b_ns, e_ns, default_unit, forced)
                    styles.append(st)
                    return txt
                text = fml.to_text(f, bound)
                variants.append({'text': 'out = ' + text, 'styles': styles})
            if kind == 'ok':
                consts, styles = [], []

                def cbound(b, e, consts=consts, styles=styles):
                    names = []
                    bare = rng.random() < 0.5        # both ends bare (default unit) or both with an explicit unit
                    for v_ns in (b * pns, e * pns):
                        u = default_unit if bare else rng.choice(list(U))
                        nm = 'k%d' % len(consts)
                        consts.append([nm, 'float', dec(v_ns, u)])
                        names.append(nm if bare else nm + ' ' + u)
                    styles.append('const')
                    return '[%s%s%s]' % (names[0], rng.choice([',', ':']), names[1])
                text = fml.to_text(f, cbound)
                # a constant without unit next to one with a unit follows the same inheritance rule: keep both explicit or both bare
                variants.append({'text': 'out = ' + text, 'styles': styles, 'consts': consts})
            cases.append({'f': f, 'n': n, 'nv': nv, 'cols': cols, 'period': [period[0], period[1], 0.1], 'unit': default_unit,
                          'variants': variants, 'kind': kind, 'pns': pns})
        return cases

    def model_lines(self, c):
        return ['(off std %s %d %s)' % (fml.to_sx(c['f']), c['n'], fml.trace_sx(c['cols'])), '(info %s)' % fml.to_sx(c['f']),
                '(past stl %s %d %s)' % (fml.to_sx(c['f']), c['n'], fml.trace_sx(c['cols']))]

    def impl_cases(self, c):
        out = []
        times = list(range(c['n']))
        data = {'time': times}
        for i in range(c['nv']):
            data[fml.VARS[i]] = list(c['cols'][i])
        used = fml.fvars(c['f'])
        for v in c['variants']:
            base = {'vars': fml.VARS[:c['nv']], 'spec': v['text'], 'unit': c['unit'], 'period': c['period'], 'consts': v.get('consts', [])}
            out.append(dict(base, monitor='discrete-offline', calls=[['evaluate', data]]))
            if fml.has_future(c['f']):
                out.append(dict(base, monitor='discrete-online', pastify=True, _offline_pastified=dict(base, monitor='discrete-offline', pastify=True, calls=[['evaluate', data]]),
                                calls=[['update', k, [[fml.VARS[i], c['cols'][i][k]] for i in used]] for k in range(c['n'])]))
            else:
                out.append(dict(base, monitor='discrete-online',
                                calls=[['update', k, [[fml.VARS[i], c['cols'][i][k]] for i in used]] for k in range(c['n'])]))
        extra = [o.pop('_offline_pastified') for o in out if '_offline_pastified' in o]
        return out + extra

    def judge(self, c, mlines, ires):
        m = parse_fields(mlines[0])
        info = parse_fields(mlines[1])
        nmain = 2 * len(c['variants'])
        offp, ires = ires[nmain:], ires[:nmain]
        if 'ERROR' in m:
            return 'model-error', mlines
        if m['EXACT'] != ['1']:
            return 'dropped', None
        rho = json.loads(json.dumps(expect_vals([fml.parse_val(x) for x in m['RHO']])))
        h = int(info['HOR'][0])
        results, results_off, model_diff = [], [], None
        for idx, i in enumerate(ires):
            v = c['variants'][idx // 2]
            det = {'spelling': v['text'], 'unit': c['unit'], 'period': c['period'], 'monitor': 'offline' if idx % 2 == 0 else 'online'}
            if c['kind'] == 'reject':
                stat = [i['setup']] + i['calls']
                first_bad = next((s for s in stat if s['status'] != 'ok'), None)
                if first_bad is None:
                    return 'violation', dict(det, expected='RTAMTException: bound is not a multiple of the sampling period', observed=[s.get('value') for s in i['calls']][:3])
                if first_bad['status'] != 'rtamt':
                    return 'violation', dict(det, expected='RTAMTException: bound is not a multiple of the sampling period', observed=first_bad)
                continue
            if i['setup']['status'] != 'ok':
                return 'violation', dict(det, expected={'values': rho}, observed=i['setup'])
            for r in i['calls']:
                if r['status'] != 'ok':
                    return 'violation', dict(det, expected={'values': rho}, observed=r)
            if idx % 2 == 0:
                vals = [p[1] for p in i['calls'][0]['value']]
                results_off.append(vals)
                if vals != rho and model_diff is None:
                    model_diff = dict(det, expected={'source': 'model with bounds in samples', 'values': rho}, observed=vals)
            else:
                vals = [r['value'] for r in i['calls']]
                if not fml.has_future(c['f']):
                    if vals != rho and model_diff is None:
                        model_diff = dict(det, expected={'source': 'model with bounds in samples', 'values': rho}, observed=vals)
                else:
                    pm = parse_fields(mlines[2])
                    if 'ERROR' not in pm and pm['GUARD'] == ['1'] and pm['EXACT'] == ['1']:
                        spec = [None if x == '_' else expect_vals([fml.parse_val(x)])[0] for x in pm['SPEC']]
                        spec = json.loads(json.dumps(spec))
                        badk = [k for k in range(len(vals)) if spec[k] is not None and vals[k] != spec[k]]
                        if badk and model_diff is None:
                            model_diff = dict(det, expected={'source': 'rho(phi, w[0..i], i-h) with h in samples', 'values': spec}, observed=vals, differs_at=badk)
                results.append(vals)
        # offline evaluate() of the pastified specification = the online updates of the pastified specification (before and after pastify(), offline and online)
        if c['kind'] != 'reject':
            for v, i, r in zip(c['variants'], offp, results):
                if i['setup']['status'] != 'ok' or i['calls'][0]['status'] != 'ok':
                    return 'violation', {'spelling': v['text'], 'unit': c['unit'], 'period': c['period'], 'monitor': 'offline after pastify()', 'expected': {'online after pastify()': r},
                                         'observed': i['setup'] if i['setup']['status'] != 'ok' else i['calls'][0]}
                got = [p[1] for p in i['calls'][0]['value']]
                if got != r:
                    return 'violation', {'spelling': v['text'], 'unit': c['unit'], 'period': c['period'], 'monitor': 'offline after pastify()', 'expected': {'online after pastify()': r}, 'observed': got}
        # the property: equivalent spellings give identical results, offline and online (pastified or not)
        for name, rs in (('offline', results_off), ('online', results)):
            for r in rs[1:]:
                if r != rs[0]:
                    return 'violation', {'expected': 'identical %s results for equivalent spellings' % name, 'observed': rs,
                                         'spellings': [v['text'] for v in c['variants']], 'unit': c['unit'], 'period': c['period']}
        # what the common result must BE is the subject of C01 / C02 / C03: a difference from the model is a broken tie of the model on which
        # C08_formula_monitors is stated, not a concrete failure of C08
        if model_diff is not None:
            return 'model-differs', model_diff
        return 'ok', None

    def nontrivial(self, c):
        return any(s != 'none' for v in c['variants'] for s in v['styles'])

    def features(self, c):
        return sorted({s for v in c['variants'] for s in v['styles']} | {c['kind'], 'unit_' + c['unit'], 'period_' + c['period'][1]})

    def key(self, c):
        return json.dumps([[v['text'] for v in c['variants']], c['period'], c['unit'], c['cols']])

    def describe(self, c):
        return {'spellings': [v['text'] for v in c['variants']], 'period': c['period'], 'unit': c['unit'], 'kind': c['kind'], 'data': c['cols']}

    SHRINK = False

    def still_fails(self, model, c, shape=None):
        return False, None

    def signature(self, c, detail):
        sig = Check.signature(self, c, detail)
        sig['styles'] = sorted({s for v in c['variants'] for s in v['styles']})
        sig['kindcase'] = c['kind']
        return sig


def main(tier, seed, replay=None):
    from harness import densex, units_lift_check
    return units_lift_check.extend(densex.extend(C08, densex.D08()), units_lift_check.Lift())().main(tier, seed, replay)
