# harness/onlinevisitorgen_check.py [--n N] [--seed S] OUT.v
# Differential check of the GENERATED online visitors (coq/theories/OnlineVisitorGen.v, written by tools/py2coq_onlinevisitor.py) against the
# Python classes they were translated from.  One seeded PRNG makes structured random specifications (past temporal, Boolean, predicates,
# exact arithmetic, repeated sub-formulas, named sub-specifications, bounds with units, sampling periods; some with future operators or
# bounds that are no multiple of the period, which set_ast must reject) and integer data.  For every case: set_ast (rejection = None),
# the class of the operation object under every node name, K updates, reset(), K more updates; the same through gen_set_ast / gen_run /
# gen_reset_forest over ExtZ, compared by vm_compute (`failing = []`).  Cases in which Python computes a nan (inf - inf) are dropped.
# run: PYTHONDONTWRITEBYTECODE=1 PYTHONPATH=/repo /venv/bin/python harness/onlinevisitorgen_check.py build/OnlineVisitorGenCases.v
import sys, os, random, math, re, logging
sys.path.insert(0, os.path.dirname(os.path.abspath(__file__)))
sys.path.insert(0, os.path.dirname(os.path.dirname(os.path.abspath(__file__))))
logging.disable(logging.CRITICAL)
import rtamt
from pastifiergen_check import dump, opt, rand_interval

N, SEED = int(opt('--n', '2000')), int(opt('--seed', '20260926'))
OUT = [a for a in sys.argv[1:] if a.endswith('.v')][0]
GEN = os.path.join(os.path.dirname(os.path.dirname(os.path.abspath(__file__))), 'coq/theories/OnlineVisitorGen.v')
TU = {'s': 'US', 'ms': 'UMS', 'us': 'UUS', 'ns': 'UNS'}

def arith(rng, d):
    if d <= 0 or rng.random() < 0.3:
        return rng.choice(['x', 'y', 'z', 'x', 'y', '1', '2', '3', '0', '7'])
    r = rng.random()
    if r < 0.2: return 'abs(%s)' % arith(rng, d - 1)
    if r < 0.3: return '-(%s)' % arith(rng, d - 1)
    return '(%s) %s (%s)' % (arith(rng, d - 1), rng.choice('+-*'), arith(rng, d - 1))

def expr(rng, d, subs, fut):
    if d <= 0 or rng.random() < 0.1:
        r = rng.random()
        if r < 0.55: return '(%s) %s (%s)' % (arith(rng, 1), rng.choice(['<=', '<', '>=', '>', '==', '!==']), arith(rng, 1))
        if r < 0.8 or not subs: return arith(rng, 2)
        return rng.choice(subs)
    sub = lambda: expr(rng, d - 1, subs, fut)
    r = rng.random()
    if r < fut:
        o = rng.choice(['always', 'eventually', 'next', 'until', 'always[0,2]', 'eventually[1,2]', 'until[0,3]', 's_next'])
        if o.startswith('until'): return '(%s) %s (%s)' % (sub(), o, sub())
        return '%s (%s)' % (o, sub())
    if r < 0.30:
        return '%s%s (%s)' % (rng.choice(['once', 'historically']), rand_interval(rng) if rng.random() < 0.6 else '', sub())
    if r < 0.45:
        return '%s (%s)' % (rng.choice(['prev', 's_prev', 'not', 'rise', 'fall']), sub())
    if r < 0.62:
        o = rng.choice(['since', 'since', 'precedes'])
        iv = rand_interval(rng) if (o == 'precedes' or rng.random() < 0.6) else ''
        a, b = sub(), sub()
        if rng.random() < 0.2: b = a
        return '(%s) %s%s (%s)' % (a, o, iv, b)
    o = rng.choice(['and', 'or', 'implies', 'iff', 'xor'])
    a, b = sub(), sub()
    if rng.random() < 0.35: b = a            # the same sub-formula twice: the `visited` memo
    return '(%s) %s (%s)' % (a, o, b)

def make_text(rng):
    fut = rng.choice([0, 0, 0, 0, 0.03])
    subs, lines = [], []
    for i in range(rng.choice([0, 0, 1, 2])):
        lines.append('sub%d = %s;' % (i, expr(rng, rng.randint(1, 3), subs, fut)))
        subs.append('sub%d' % i)
    lines.append('out = %s;' % expr(rng, rng.randint(1, 5), subs, fut))
    return '\n'.join(lines)

def new_spec(text, unit, period):
    spec = rtamt.StlDiscreteTimeSpecification()
    for v in 'xyz': spec.declare_var(v, 'float')
    spec.unit = unit
    if period is not None: spec.set_sampling_period(period[0], period[1], 0.1)
    spec.spec = text
    spec.parse()
    return spec

def val(v):
    if isinstance(v, bool): raise ValueError('bool')
    if v == float('inf'): return 'PosInf'
    if v == -float('inf'): return 'NegInf'
    if v != v: raise ArithmeticError('nan')
    if float(v) != int(v): raise ValueError('not an integer: %r' % v)
    return '(Fin (%d))' % int(v)

def subnodes(n):
    yield n
    for c in n.children:
        for x in subnodes(c): yield x

def main():
    rng = random.Random(SEED)
    gops = re.findall(r'^\| Op_(\w+)', open(GEN).read(), re.M)
    cases, stats = [], {'rejected_by_parser': 0, 'set_ast_raises': 0, 'nan_dropped': 0, 'updates': 0, 'memo_hits': 0, 'timed': 0, 'roots': 0}
    K = 6
    while len(cases) < N:
        text = make_text(rng)
        unit = rng.choice(['s', 's', 's', 'ms'])
        period = rng.choice([None, None, (1, 's'), (2, 's'), (500, 'ms'), (250, 'ms')])
        try: spec = new_spec(text, unit, period)
        except rtamt.RTAMTException:
            stats['rejected_by_parser'] += 1; continue
        ast, it = spec.ast, spec.online_interpreter
        per = int(ast.sampling_period) if hasattr(ast, 'sampling_period') else int(it.sampling_period)
        per, pu = int(it.sampling_period), it.sampling_period_unit
        roots = [dump(s) for s in ast.specs]
        consts = sorted({str(n.val) for s in ast.specs for n in subnodes(s) if type(n).__name__ == 'Constant'})
        data = [[rng.randint(-5, 5) for _ in 'xyz'] for _ in range(2 * K)]
        try:
            it.set_ast(ast)
            built = True
        except rtamt.RTAMTException:
            built = False
            stats['set_ast_raises'] += 1
        classes, outs = [], []
        if built and max([getattr(o, 'end', 0) for o in it.online_operator_dict.values()] + [0]) > 60:
            continue          # (windows of thousands of samples: quadratic list operations under vm_compute)
        if built:
            try:
                names = sorted({n.name for s in ast.specs for n in subnodes(s)})
                classes = [(nm, type(it.online_operator_dict[nm]).__name__ if nm in it.online_operator_dict else '') for nm in names]
                for k in range(2 * K):
                    if k == K: it.reset()
                    r = it.update(k, [[v, data[k][i]] for i, v in enumerate('xyz')])
                    for x in it.updateVisitor.results.values(): val(x)
                    outs.append(val(r))
                    stats['memo_hits'] += sum(1 for _ in it.updateVisitor.results) - len(it.updateVisitor.visited)
            except ArithmeticError:
                stats['nan_dropped'] += 1; continue
            stats['updates'] += 2 * K
        stats['timed'] += 'NT' in ''.join(roots)
        stats['roots'] += len(roots)
        cases.append((unit, per, pu, roots, consts, data, built, classes, outs, text))
    with open(OUT, 'w') as f:
        f.write('(* GENERATED by harness/onlinevisitorgen_check.py: %d cases (seed %d): %s *)\n' % (len(cases), SEED, stats))
        f.write('From Coq Require Import List Bool ZArith QArith String.\nFrom RV Require Import Val Syntax Offline ExtZ Units NodeName OnlineGen OnlineVisitorGen.\n'
                'Import ListNotations.\nLocal Open Scope string_scope.\n\n'
                'Definition mkb (n : N) (d : positive) (u : option tunit) : bound := {| bnum := n; bden := d; bunit := u |}.\n'
                'Definition tut (du : tunit) (p : Z) (pu : tunit) (b e : bound) : option (Z * Z) :=\n'
                '  match to_samples du p pu (itv_of b e) with Ok (b1, e1) => Some (Z.of_nat b1, Z.of_nat e1) | _ => None end.\n'
                'Definition gop_name (o : @gop ExtZVal) : string :=\n  match o with\n%s  end.\n' % ''.join(
                    '  | Op_%s%s => "%s"\n' % (c, '' if c in ('AbsOperation', 'SqrtOperation', 'ExpOperation', 'LnOperation', 'NegateOperation', 'PowOperation', 'LogOperation', 'AdditionOperation', 'SubtractionOperation', 'MultiplicationOperation', 'DivisionOperation') else ' _', c) for c in gops))
        f.write('Definition ez_eqb (a b : extz) : bool := ez_leb a b && ez_leb b a.\n'
                'Fixpoint vals_eqb (a b : list extz) : bool := match a, b with [] , [] => true | x :: a, y :: b => ez_eqb x y && vals_eqb a b | _, _ => false end.\n'
                'Definition cvals (tbl : list (string * extz)) (t : string) : extz := match find (fun p => String.eqb (fst p) t) tbl with Some p => snd p | None => Fin 0 end.\n'
                'Definition vobjs (data : list (list extz)) (k : nat) (v f : string) : option extz :=\n'
                '  if negb (String.eqb f "") then None else\n'
                '  match nth_error data k with None => None | Some row => nth_error row (if String.eqb v "x" then 0 else if String.eqb v "y" then 1 else if String.eqb v "z" then 2 else 99)%nat end.\n'
                'Definition names_ok (d : sdict gop) (cl : list (string * string)) : bool :=\n'
                '  forallb (fun p => String.eqb (match d (fst p) with Some o => gop_name o | None => "" end) (snd p)) cl.\n'
                '(* set_ast; the classes; K updates; reset; K updates *)\n'
                'Definition check (du : tunit) (p : Z) (pu : tunit) (F : list node) (ct : list (string * extz)) (data : list (list extz)) (K : nat)\n'
                '    (built : bool) (cl : list (string * string)) (outs : list extz) : bool :=\n'
                '  match gen_set_ast (tut du p pu) F with\n  | None => negb built\n  | Some d0 => built && names_ok d0 cl &&\n'
                '      match gen_run ExtZArith (cvals ct) (vobjs data) F d0 0 K with\n      | None => false\n      | Some (d1, o1) =>\n'
                '          match gen_reset_forest F d1 with\n          | None => false\n          | Some d2 =>\n'
                '              match gen_run ExtZArith (cvals ct) (vobjs data) F d2 K K with\n              | None => false\n'
                '              | Some (_, o2) => vals_eqb (o1 ++ o2) outs\n              end\n          end\n      end\n  end.\n\n')
        for k, (unit, per, pu, roots, consts, data, built, classes, outs, text) in enumerate(cases):
            f.write('Definition c%d : bool := check %s %d %s\n  [%s]\n  [%s]\n  [%s] %d %s\n  [%s]\n  [%s].\n' % (
                k, TU[unit], per, TU[pu], ';\n   '.join(roots), '; '.join('("%s", %s)' % (c, val(float(c))) for c in consts),
                '; '.join('[%s]' % '; '.join(val(v) for v in row) for row in data), K, 'true' if built else 'false',
                '; '.join('("%s", "%s")' % p for p in classes), '; '.join(outs)))
        f.write('\nDefinition results : list (nat * bool) := [%s].\n' % '; '.join('(%d%%nat, c%d)' % (k, k) for k in range(len(cases))))
        f.write('Definition failing : list nat := map fst (filter (fun r => negb (snd r)) results).\n'
                'Lemma onlinevisitorgen_cases_agree : failing = []. Proof. vm_compute. reflexivity. Qed.\n')
    print('onlinevisitorgen_check: %d cases written to %s: %s' % (len(cases), OUT, stats))
    with open(OUT + '.txt', 'w') as f:
        for k, c in enumerate(cases): f.write('c%d du=%s period=%s%s built=%s\n%s\n' % (k, c[0], c[1], c[2], c[6], c[9]))

if __name__ == '__main__':
    main()
