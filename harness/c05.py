# c05.py — C05: the dense-time online output does not depend on how the input
# is cut into update() batches, and agrees with the dense-time semantics where
# it is defined.
import json
import math
import itertools
from harness import fml, dense
from harness.common import parse_fields
from harness.runner import Check, need_vars
from harness.c04 import gen_dense_formula


def splits(n, k, rng):
    """k non-empty consecutive chunks of range(n): list of (lo, hi)"""
    cuts = sorted(rng.sample(range(1, n), k - 1)) if k > 1 else []
    b = [0] + cuts + [n]
    return [(b[i], b[i + 1]) for i in range(k)]


def all_splits(n):
    for mask in range(2 ** (n - 1)):
        cuts = [i + 1 for i in range(n - 1) if mask >> i & 1]
        b = [0] + cuts + [n]
        yield [(b[i], b[i + 1]) for i in range(len(b) - 1)]


UNOPS = ['once', 'hist', 'not', 'abs', 'neg', 'sqrt']       # index = the `kind` of the driver command onlun
BINOPS = ['and', 'or', 'sub', 'add', 'implies', 'iff', 'xor', 'mul', 'div', 'pow']      # index = the `op` of the driver commands oisect / binrun (Run.bin_f)


def gen_online_signal(rng, bad, infs):
    n = rng.choice([0, 1, 1, 2, 3, 4, 5, 6])
    t = rng.choice([0, 0, 0, 1, 2, 5])
    out = []
    for _ in range(n):
        v = rng.randint(-3, 3)
        if infs and rng.random() < 0.1:
            v = rng.choice(['inf', '-inf'])
        out.append([t, v])
        t += rng.choice([0, 0, -1, 1, 2]) if bad else rng.choice([1, 1, 2, 3, 5])
    if out and rng.random() < 0.15 and not bad:
        out.append(['inf', out[-1][1]])        # a constant signal / a signal closed at +inf
    return out


def cut_batches(rng, s1, s2):
    """the two signals cut into the same number of consecutive batches (some empty), a batch sometimes preceded by a repetition of the
    last sample already sent (same stamp, sometimes another value)"""
    k = rng.randint(1, max(1, len(s1), len(s2)) + 1)

    def cut(s):
        cuts = sorted(rng.randint(0, len(s)) for _ in range(k - 1))
        b = [0] + cuts + [len(s)]
        out, sent = [], []
        for i in range(k):
            part = [list(x) for x in s[b[i]:b[i + 1]]]
            if sent and part and rng.random() < 0.3:
                part = [[sent[-1][0], sent[-1][1] if rng.random() < 0.6 else rng.randint(-3, 3)]] + part
            sent += s[b[i]:b[i + 1]]
            out.append(part)
        return out
    return [list(x) for x in zip(cut(s1), cut(s2))]


def sx_samples(l):
    return '(' + ' '.join('(%s %s)' % (t, v) for t, v in l) + ')'


class C05(Check):
    PID = 'C05'
    RULE = ('seeded random past-time (and pastified bounded eventually/always) dense-time formulas x signals with 2-7 samples per variable starting at 0; '
            'nested bounded past operators under a binary operator; for one-variable formulas every one of the 2^(n-1) chunkings (n <= 6), otherwise 24 random chunkings with independent cuts per variable; '
            'per chunking: the list every update() returns must equal the one the model of the whole monitor (DenseOnlineMon.mon_run, theorem C05_monitor) returns, and the concatenated outputs must have non-decreasing stamps and, as a step function, equal Dn (Dense.v) of the (pastified) formula on the '
            'region they cover; all chunkings are thereby compared with each other; non-trivial = temporal operator and >= 4 chunkings; '
            'distinct by (formula, signals); plus direct calls of the online intersection(a, b, method) and of update() of the and / or / implies / iff / xor / addition / subtraction '
            'operations on random batch sequences (empty batches, repeated boundary samples with the same or another value, +inf stamps, 15% malformed streams), compared list for list, '
            'buffers and last_output included, with the proved model DenseOnlineMerge (oisect_e, bin_run_e); and of update() of the once / historically / since (unbounded), not / abs / unary minus / sqrt and '
            'bounded once / historically operation classes (bounds [0,0], [a,a], [0,b], [a,b], signals starting at 0 and later), outputs of every call and the state kept between calls, with DenseOnlineFold / DenseOnlineWin')

    def gen_cases(self, rng, tier):
        cases = []
        nrand = 140 if tier == 'quick' else 2500
        P = ('pred', 'geq', ('var', 0), ('const', 1))
        Q = ('pred', 'leq', ('var', 1), ('const', 2))
        base = [P, ('not', P), ('once', P), ('hist', P), ('since', P, ('not', P)), ('oncet', 0, 2, P), ('oncet', 2, 4, P), ('histt', 0, 4, P), ('histt', 2, 2, P),
                ('and', P, Q), ('or', ('once', P), Q), ('pred', 'geq', ('a2', 'add', ('var', 0), ('var', 1)), ('const', 0)), ('sincet', 0, 4, P, Q),
                ('evt', 0, 2, P), ('alwt', 2, 4, P), ('implies', P, ('evt', 0, 4, Q)), ('pred', 'geq', ('a1', 'neg', ('var', 0)), ('const', 0)),
                ('pred', 'geq', ('a1', 'abs', ('var', 0)), ('const', 2)), ('since', ('once', P), P), ('and', ('once', P), ('once', P)),
                ('or', P, Q), ('or', ('oncet', 0, 4, P), Q), ('and', ('histt', 0, 4, P), Q), ('or', ('alwt', 0, 4, P), Q), ('implies', ('histt', 2, 4, P), Q),
                ('or', Q, ('oncet', 0, 2, P)), ('iff', P, Q), ('since', ('histt', 0, 2, P), Q)]
        items = [(f, 2) for f in base for _ in range(2)]
        # bounded past operators fed by bounded past operators: the inner operator hands over batches that begin with the last sample
        # of the previous batch, and the outer one keeps a provisional piece for the last sample of every batch
        X, Y = ('var', 0), ('var', 1)
        nested = [('sincet', 0, 2, X, ('oncet', 8, 10, Y)), ('and', ('oncet', 0, 2, ('oncet', 4, 6, P)), Q), ('or', ('histt', 0, 2, ('histt', 2, 6, P)), Q),
                  ('and', ('oncet', 0, 2, ('histt', 2, 4, P)), ('histt', 0, 2, ('oncet', 2, 4, Q))), ('sincet', 0, 4, ('histt', 0, 2, P), ('oncet', 2, 4, Q)),
                  ('or', ('oncet', 0, 2, ('oncet', 8, 10, Y)), X), ('and', ('histt', 0, 2, ('histt', 8, 10, Y)), X)]
        items += [(f, 2) for f in nested for _ in range(3 if tier == 'quick' else 12)]
        for i in range(nrand):
            nv = rng.choice([1, 1, 2, 2])
            f = gen_dense_formula(rng, nv, rng.choice([1, 1, 2, 2, 3]), future=(rng.random() < 0.4))
            if any(s[0] in ('ev', 'alw', 'until', 'untilt') for s in fml.subformulas(f)):
                continue
            items.append((f, nv))
        # operands that start at different times: one signal has whole pieces before the other one begins
        D = ('pred', 'geq', ('a2', 'sub', ('var', 1), ('var', 0)), ('const', 0))
        for (f, sg) in [(D, [[[22, 0], [30, 0]], [[4, 0], [8, 0]]]), (D, [[[4, 1], [8, 2]], [[22, 0], [30, 5]]]),
                        (('and', P, Q), [[[12, 3], [14, 0], [20, 2]], [[0, 1], [4, 5], [8, 0]]]),
                        (('since', P, Q), [[[0, 3], [2, 0]], [[6, 1], [10, 5], [12, 0]]])]:
            ch = [{str(i): [(0, len(sg[i]))] for i in (0, 1)}, {str(i): [(j, j + 1) for j in range(len(sg[i]) - 1)] + [(len(sg[i]) - 1, len(sg[i]))] for i in (0, 1)}]
            ch[1] = {k: v[:2] if len(v) > 2 and False else v for k, v in ch[1].items()}
            k = min(len(v) for v in ch[1].values())
            ch[1] = {kk: v[:k - 1] + [(v[k - 1][0], v[-1][1])] for kk, v in ch[1].items()}
            cases.append({'f': f, 'nv': 2, 'sigs': sg, 'chunkings': ch, 'past': False, 'n': 3})
        # the listed known finding KF-C05-late-start, deterministically
        LS = ('sincet', 1, 1, ('var', 0), ('const', 0))
        sg = [[[12, 0], [18, 0]]]
        cases.append({'f': LS, 'nv': 1, 'sigs': sg, 'chunkings': [{'0': [(0, 2)]}, {'0': [(0, 1), (1, 2)]}], 'past': False, 'n': 2})
        # a bounded once whose last sample of a batch is dominated (zero-length provisional piece), fed by another bounded once
        sg = [[[0, 0], [6, 0], [14, 0], [20, 2], [26, 5]], [[0, 1], [7, -5], [11, 1], [17, -3], [25, 3]]]
        for f in (nested[0], nested[5], ('and', ('oncet', 0, 2, ('oncet', 8, 10, Y)), X)):
            cases.append({'f': f, 'nv': 2, 'sigs': sg, 'past': False, 'n': 5,
                          'chunkings': [{'0': [(0, 5)], '1': [(0, 5)]}, {'0': [(j, j + 1) for j in range(5)], '1': [(j, j + 1) for j in range(5)]},
                                        {'0': [(0, 2), (2, 4), (4, 5)], '1': [(0, 1), (1, 4), (4, 5)]}]})
        items = [(f, nv, None) for (f, nv) in items]
        # division, pow, sqrt, exp, ln, log (exact by construction of the signals)
        items += [(f, 2, sg) for (f, sg) in dense.fancy_cases(rng, 30 if tier == 'quick' else 500, past_only=True)]
        for (f, nv, given) in items:
            if fml.size(f) > 20 or not fml.fvars(f):
                continue
            nv = need_vars(f, nv)
            used = fml.fvars(f)
            sigs = []
            late = rng.random() < 0.25
            for i in range(nv):
                if given is not None:
                    sigs.append(given[i])
                    continue
                s = dense.gen_signal(rng, maxn=7, start0=not (late and rng.random() < 0.6))
                while len(s) < 2:
                    s = dense.gen_signal(rng, maxn=7, start0=not (late and rng.random() < 0.6))
                sigs.append(s)
            chunkings = []
            if len(used) == 1 and len(sigs[used[0]]) <= 6:
                for sp in all_splits(len(sigs[used[0]])):
                    chunkings.append({str(used[0]): sp})
            else:
                kmax = min(len(sigs[i]) for i in used)
                chunkings.append({str(i): [(0, len(sigs[i]))] for i in used})
                chunkings.append({str(i): splits(len(sigs[i]), kmax, rng) for i in used})
                for _ in range(16):
                    k = rng.randint(1, kmax)
                    chunkings.append({str(i): splits(len(sigs[i]), k, rng) for i in used})
                # updates in which some variable receives no sample at all (an empty batch)
                for _ in range(8):
                    ks = {i: rng.randint(1, len(sigs[i])) for i in used}
                    K = max(ks.values())
                    ch = {}
                    for i in used:
                        sp = splits(len(sigs[i]), ks[i], rng)
                        slots = sorted(rng.sample(range(K), ks[i]))
                        full, pos = [], 0
                        for j in range(K):
                            if j in slots:
                                full.append(sp[slots.index(j)])
                                pos = sp[slots.index(j)][1]
                            else:
                                full.append((pos, pos))
                        ch[str(i)] = full
                    chunkings.append(ch)
            cases.append({'f': f, 'nv': nv, 'sigs': sigs, 'chunkings': chunkings, 'past': fml.has_future(f), 'n': max(len(s) for s in sigs)})
        # the online merge and the update() wrapper of the binary online operations, called directly: against DenseOnlineMerge.oisect_e /
        # bin_run_e (theorems C05_binary_merge / C05_binary_run / C05_binary_chunking), list for list, buffers and last_output included
        nm = 400 if tier == 'quick' else 8000
        for i in range(nm):
            # (multiplication_operation.py forgets last_output at every update: it has its own model, DenseOnlineMon.mul_update_g, exercised by the monitor stream)
            op = rng.choice([o for o in BINOPS if o != 'mul'] + ['div', 'pow'])
            infs = op in ('and', 'or', 'implies')        # inf - inf is not a number
            bad = rng.random() < 0.15
            a, b = gen_online_signal(rng, bad, infs), gen_online_signal(rng, bad and rng.random() < 0.5, infs)
            if op == 'div':
                # exact quotients: multiples of 4 over divisors of 4
                a = [[t, 4 * v] for t, v in a]
                b = [[t, [1, 2, -1, -2, 4, -4, 1][v + 3]] for t, v in b]
            elif op == 'pow':
                b = [[t, abs(v)] for t, v in b]
            if i % 2 == 0:
                cases.append({'omerge': op, 'a': a, 'b': b, 'n': 0})
            else:
                cases.append({'binrun': op, 'batches': cut_batches(rng, a, b), 'n': 0})
        # the other operation classes, called directly: against DenseOnlineFold (once / historically / since unbounded, unary point-wise operations)
        # and DenseOnlineWin (bounded once / historically) — outputs of every update() and the state kept between calls
        for i in range(nm):
            kind = rng.choice(['once', 'hist', 'not', 'abs', 'neg', 'sqrt', 'since', 'since', 'once_timed', 'once_timed', 'hist_timed', 'hist_timed'])
            bad = rng.random() < 0.12
            if kind == 'since':
                a, b = gen_online_signal(rng, bad, True), gen_online_signal(rng, bad and rng.random() < 0.5, True)
                cases.append({'onlop': kind, 'batches': cut_batches(rng, a, b), 'n': 0})
            elif kind.endswith('_timed'):
                sg = gen_online_signal(rng, bad, True)
                sg = [x for x in sg if x[0] != 'inf']
                if sg and rng.random() < 0.7:
                    d = sg[0][0]
                    sg = [[t - d, v] for t, v in sg]          # starts at 0 (the proved case); the others start late
                a_ = rng.choice([0, 0, 1, 2, 3])
                b_ = a_ + rng.choice([0, 0, 1, 2, 4, 9])
                cases.append({'onlop': kind, 'a': a_, 'b': b_, 'batches': [x[0] for x in cut_batches(rng, sg, [])], 'n': 0})
            else:
                sg = gen_online_signal(rng, bad, kind != 'sqrt')
                if kind == 'sqrt':
                    sg = [[t, rng.choice([0, 1, 4, 9, 16, 25, -1, 'inf'])] for t, v in sg]
                bs = [x[0] for x in cut_batches(rng, sg, [])]
                if kind == 'sqrt':
                    # (the repeated boundary samples get perfect squares too: the model's square root is exact on those only)
                    bs = [[[t, v if v in (0, 1, 4, 9, 16, 25, -1, 'inf') else 4] for t, v in b] for b in bs]
                cases.append({'onlop': kind, 'batches': bs, 'n': 0})
        return cases

    def load_case(self, c):
        c = Check.load_case(self, c)
        return c

    def model_lines(self, c):
        if 'omerge' in c:
            return ['(oisect %d %s %s)' % (BINOPS.index(c['omerge']), sx_samples(c['a']), sx_samples(c['b']))]
        if 'binrun' in c:
            return ['(binrun %d (%s))' % (BINOPS.index(c['binrun']), ' '.join('(%s %s)' % (sx_samples(b1), sx_samples(b2)) for b1, b2 in c['batches']))]
        if 'onlop' in c:
            k = c['onlop']
            if k == 'since':
                return ['(onlsince (%s))' % ' '.join('(%s %s)' % (sx_samples(b1), sx_samples(b2)) for b1, b2 in c['batches'])]
            if k.endswith('_timed'):
                return ['(onlwin %d %d %d (%s))' % (0 if k == 'once_timed' else 1, c['a'], c['b'], ' '.join(sx_samples(b) for b in c['batches']))]
            return ['(onlun %d (%s))' % (UNOPS.index(k), ' '.join(sx_samples(b) for b in c['batches']))]
        kind = 'pastdn' if c['past'] else 'dn'
        used = fml.fvars(c['f'])
        tend = max(c['sigs'][i][-1][0] for i in used)
        w = ' '.join(dense.sig_sx(s) for s in c['sigs'])
        lines = ['(%s std %s (%s))' % (kind, fml.to_sx(c['f']), w),
                 '(%s std %s (%s) 0 %d)' % ('pastrhoz' if c['past'] else 'rhoz', fml.to_sx(c['f']), w, tend + 8)]
        # the model of the whole online monitor (DenseOnlineMon.mon_run, theorem C05_monitor) on every chunking: one batch per variable and update
        for ch in c['chunkings']:
            k = len(ch[str(used[0])])
            envs = []
            for j in range(k):
                env = [c['sigs'][i][ch[str(i)][j][0]:ch[str(i)][j][1]] if (i in used and str(i) in ch) else [] for i in range(len(c['sigs']))]
                envs.append('(' + ' '.join(dense.sig_sx(b) for b in env) + ')')
            lines.append('(%s std %s (%s))' % ('pastonlmon' if c['past'] else 'onlmon', fml.to_sx(c['f']), ' '.join(envs)))
        return lines

    def impl_cases(self, c):
        if 'omerge' in c:
            return [{'monitor': 'dense-online-merge', 'op': c['omerge'], 'a': c['a'], 'b': c['b']}]
        if 'binrun' in c:
            return [{'monitor': 'dense-online-binop', 'op': c['binrun'], 'batches': c['batches']}]
        if 'onlop' in c:
            return [{'monitor': 'dense-online-op', 'op': c['onlop'], 'batches': c['batches'], 'a': c.get('a'), 'b': c.get('b')}]
        used = fml.fvars(c['f'])
        out = []
        for ch in c['chunkings']:
            k = len(ch[str(used[0])])
            calls = []
            for j in range(k):
                calls.append(['update', [[fml.VARS[i], dense.to_impl(c['sigs'][i][ch[str(i)][j][0]:ch[str(i)][j][1]])] for i in used]])
            out.append({'monitor': 'dense-online', 'vars': fml.VARS[:c['nv']], 'spec': 'out = ' + dense.dense_formula_text(c['f']),
                        'pastify': c['past'], 'calls': calls})
        # the last chunking once more, by a caller that refills one preallocated list of pairs per variable in place for every update()
        if out and len(out[-1]['calls']) > 1:
            out.append(dict(out[-1], reuse_buffers=True))
        return out

    def judge_direct(self, c, mlines, ires):
        def lst(txt):
            return [[(x.rsplit(':', 1)[0] if x.rsplit(':', 1)[0] == 'inf' else int(x.rsplit(':', 1)[0])), fml.val_sx(fml.parse_val(x.rsplit(':', 1)[1]))] for x in txt.split()]
        canon = lambda l: [[t, fml.val_sx(fml.parse_val(str(v)))] for t, v in l]
        ml = mlines[0]
        calls = ires[0]['calls']
        failed = next((r for r in calls if r['status'] != 'ok'), None)
        if 'omerge' in c:
            det = {'call': 'online intersection(a, b, %s)' % c['omerge'], 'a': c['a'], 'b': c['b']}
            if ml == 'OISECT BAD':
                if failed is not None and failed['status'] == 'rtamt':
                    return 'ok', None
                return 'violation', dict(det, kind='list', expected={'source': 'DenseOnlineMerge.oisect_e', 'value': 'RTAMTException'}, observed=failed or calls[0])
            parts = [p.strip() for p in ml[len('OISECT'):].split('|')]
            exp = [lst(parts[0]), (lst(parts[1][len('LAST'):]) or [[]])[0], lst(parts[2][len('R1'):]), lst(parts[3][len('R2'):])]
            if failed is not None:
                return 'violation', dict(det, kind='list', expected={'source': 'DenseOnlineMerge.oisect_e', 'value': exp}, observed=failed)
            got = calls[0]['value']
            got = [canon(got[0]), (canon([got[1]]) if got[1] else [[]])[0], canon(got[2]), canon(got[3])]
            if got != exp:
                return 'violation', dict(det, kind='list', expected={'source': 'DenseOnlineMerge.oisect_e (out, last, remainder_1, remainder_2)', 'value': exp}, observed=got)
            return 'ok', None
        if 'onlop' in c:
            k = c['onlop']
            det = {'call': '%s operation%s: update() per batch' % (k, ('(%d, %d)' % (c['a'], c['b'])) if k.endswith('_timed') else ''), 'batches': c['batches']}
            tag = ml.split(' ', 1)[0]
            src = 'DenseOnlineWin' if k.endswith('_timed') else 'DenseOnlineFold'
            if ml.endswith(' BAD'):
                if failed is not None and failed['status'] in ('rtamt', 'crash'):
                    return 'ok', None          # the operation raises where the model does (IndexError on an emptied stack, sqrt of a negative number)
                return 'violation', dict(det, kind='list', expected={'source': src, 'value': 'an exception'}, observed='every update() returned')
            parts = [p.strip() for p in ml[len(tag):].split('|')]
            outs = [lst(o) for o in parts[0].split(';')] if c['batches'] else []
            exp = {'outputs': outs}
            fld = {p.split(' ', 1)[0]: (p.split(' ', 1)[1] if ' ' in p else '') for p in parts[1:]}
            if failed is not None:
                return 'violation', dict(det, kind='list', expected=dict(exp, source=src), observed=failed)
            fin = calls[-1]['value']
            got = {'outputs': [canon(r['value']) for r in calls[:-1]]}
            val = lambda x: fml.val_sx(fml.parse_val(str(x)))
            if k in ('once', 'hist'):
                exp['prev'] = val(fld['PREV'])
                got['prev'] = val(fin[0])
            elif k == 'since':
                exp.update({'left_buffer': lst(fld['L']), 'right_buffer': lst(fld['R']), 'prev': val(fld['PREV']), 'last': (lst(fld['LAST']) or [[]])[0]})
                got.update({'left_buffer': canon(fin[0]), 'right_buffer': canon(fin[1]), 'prev': val(fin[2]), 'last': (canon([fin[3]]) if fin[3] else [[]])[0]})
            elif k.endswith('_timed'):
                pc = lambda x: [int(x.split(':')[0]), (x.split(':')[1] if x.split(':')[1] == 'inf' else int(x.split(':')[1])), val(x.split(':')[2])]
                exp.update({'prev_pieces': [pc(x) for x in fld['PREV'].split()], 'residual_start': fld['RS'] if fld['RS'] in ('inf', '-inf') else int(fld['RS']), 'started': fld['STARTED'] == '1'})
                got.update({'prev_pieces': [[a_, b_, val(v_)] for a_, b_, v_ in fin[0]], 'residual_start': fin[1], 'started': fin[2]})
            if got != exp:
                return 'violation', dict(det, kind='list', expected=dict(exp, source=src + ' (outputs per call, state after the last call)'), observed=got)
            self.direct = getattr(self, 'direct', 0) + 1
            return 'ok', None
        det = {'call': '%s operation: update() per batch' % c['binrun'], 'batches': c['batches']}
        if ml == 'BINRUN BAD':
            if failed is not None and failed['status'] == 'rtamt':
                return 'ok', None
            return 'violation', dict(det, kind='list', expected={'source': 'DenseOnlineMerge.bin_run_e', 'value': 'RTAMTException'}, observed=failed or 'every update() returned')
        parts = [p.strip() for p in ml[len('BINRUN'):].split('|')]
        outs = [lst(o) for o in parts[0].split(';')] if c['batches'] else []
        exp = {'outputs': outs, 'left_buffer': lst(parts[1][len('L'):]), 'right_buffer': lst(parts[2][len('R'):]), 'last_output': (lst(parts[3][len('LO'):]) or [[]])[0]}
        if failed is not None:
            return 'violation', dict(det, kind='list', expected=dict(exp, source='DenseOnlineMerge.bin_run_e'), observed=failed)
        if not all(r.get('args_unchanged', True) for r in calls):
            return 'violation', dict(det, kind='list', expected='update() leaves its arguments alone', observed='a batch was modified')
        fin = calls[-1]['value']
        got = {'outputs': [canon(r['value']) for r in calls[:-1]], 'left_buffer': canon(fin[0]), 'right_buffer': canon(fin[1]), 'last_output': (canon([fin[2]]) if fin[2] else [[]])[0]}
        if got != exp:
            return 'violation', dict(det, kind='list', expected=dict(exp, source='DenseOnlineMerge.bin_run_e (outputs per call, buffers, last_output)'), observed=got)
        self.direct = getattr(self, 'direct', 0) + 1
        return 'ok', None

    def judge(self, c, mlines, ires):
        if mlines[0].startswith('ERROR'):
            return 'model-error', mlines[0]
        if 'omerge' in c or 'binrun' in c or 'onlop' in c:
            return self.judge_direct(c, mlines, ires)
        if not dense.dn_exact(mlines[0]):
            return 'dropped', None
        ref = dense.parse_dn(mlines[0])
        if mlines[1].startswith('ERROR'):
            return 'model-error', mlines[1]
        spec = dense.parse_rhoz(mlines[1], 0)
        used = fml.fvars(c['f'])
        det = {'spec': 'out = ' + dense.dense_formula_text(c['f']), 'pastified': c['past'], 'signals_ticks': c['sigs'], 'tick_s': dense.SCALE,
               'expected': {'source': 'rhoZ (DenseSem.v) of the (pastified) formula, per tick from 0', 'values': [fml.val_sx(spec[t]) for t in sorted(spec)]}}
        covered = 0
        for idx, (ch, i) in enumerate(zip(c['chunkings'], ires)):
            d2 = dict(det, chunking=ch)
            if i['setup']['status'] != 'ok':
                return 'violation', dict(d2, observed=i['setup'])
            ml = mlines[2 + idx] if len(mlines) > 2 + idx else ''
            outs = []
            for r in i['calls']:
                if r['status'] != 'ok':
                    if ml == 'ONLMON BAD':
                        break              # the model of the monitor raises too
                    return 'violation', dict(d2, observed=r)
                outs.append(r['value'])
            else:
                if ml.startswith('ONLMON'):
                    # list for list, update by update
                    if ml == 'ONLMON BAD':
                        return 'violation', dict(d2, kind='list', expected={'source': 'DenseOnlineMon.mon_run: an exception'}, observed={'batches_ticks': [dense.from_impl(o) for o in outs]})
                    exp = [[[(x.rsplit(':', 1)[0] if x.rsplit(':', 1)[0] == 'inf' else int(x.rsplit(':', 1)[0])), fml.parse_val(x.rsplit(':', 1)[1])] for x in part.split()]
                           for part in ml[len('ONLMON'):].split(';')] if i['calls'] else []
                    got = [[[('inf' if t == math.inf else t), v] for t, v in dense.from_impl(o)] for o in outs]
                    same = len(exp) == len(got) and all(len(a) == len(b) and all((x[0] == y[0] or (x[0] != 'inf' and y[0] != 'inf' and float(x[0]) == float(y[0]))) and float(x[1]) == float(y[1])
                                                                          for x, y in zip(a, b)) for a, b in zip(exp, got))
                    if not same:
                        return 'violation', dict(d2, kind='list', expected={'source': 'DenseOnlineMon.mon_run: the lists the update() calls return (ticks)', 'batches_ticks': [[[a_, fml.val_sx(b_)] for a_, b_ in l] for l in exp]},
                                                 observed={'batches_ticks': got})
                    self.mon_lists = getattr(self, 'mon_lists', 0) + 1
            if len(outs) < len(i['calls']):
                continue
            cat = [s for o in outs for s in dense.from_impl(o)]
            d2['observed_batches'] = outs
            ts = [t for t, _ in cat]
            if any(ts[k] > ts[k + 1] for k in range(len(ts) - 1)):
                return 'violation', dict(d2, observed='time-stamps of the concatenated outputs decrease')
            if not cat:
                continue
            lo, hi = ts[0], ts[-1]
            if hi == math.inf:
                hi = max(t for t in ts if t != math.inf) if any(t != math.inf for t in ts) else lo
            diff = dense.compare_ticks(spec, cat, lo, hi)
            if diff is not None:
                return 'violation', dict(d2, observed=diff)
            covered += 1
        if len(ires) > len(c['chunkings']):
            # the same updates by a caller that reuses its lists: the batches are what they were at the time of each call
            a, b = ires[len(c['chunkings']) - 1], ires[-1]
            oc = lambda r: [r['status'], r.get('value') if r['status'] == 'ok' else r.get('kind')]
            if [oc(r) for r in a['calls']] != [oc(r) for r in b['calls']]:
                return 'violation', dict(det, shape='caller_reuses_its_lists', chunking=c['chunkings'][-1], expected={'fresh lists for every update()': [oc(r) for r in a['calls']]},
                                         observed={'one list of pairs per variable, refilled in place before every update()': [oc(r) for r in b['calls']]})
            self.reused = getattr(self, 'reused', 0) + 1
        c['_covered'] = covered
        return 'ok', None

    def signature(self, c, detail):
        if 'omerge' in c or 'binrun' in c or 'onlop' in c:
            return {'shape': 'online_operation_differs_from_model', 'op': c.get('omerge', c.get('binrun', c.get('onlop')))}
        sig = Check.signature(self, c, detail)
        def const_binary(g):
            ks = fml.children(g)
            if len(ks) == 2 and not fml.fvars(ks[0]) and not fml.fvars(ks[1]):
                return True
            return any(const_binary(k) for k in ks)
        from harness.c04 import timed_vars
        late_timed = any(c['sigs'][i][0][0] != 0 for i in timed_vars(c['f']) if i < len(c['sigs']))
        # a constant operand of a bounded operator is a signal that starts at 0: with any late variable the window looks before the common start
        late_any = any(c['sigs'][i][0][0] != 0 for i in fml.fvars(c['f']) if i < len(c['sigs']))
        under_timed_const = bool(fml.ops(c['f']) & (fml.TUN | fml.TBIN)) and late_any
        if isinstance(detail, dict) and detail.get('kind') == 'list':
            sig['shape'] = 'online_monitor_differs_from_model'        # never a listed finding
        elif late_timed or under_timed_const:
            sig['shape'] = 'late_start_bounded'
        elif fml.ops(c['f']) & {'oncet', 'histt', 'sincet', 'evt', 'alwt'}:
            sig['shape'] = 'bounded_window'
        else:
            sig['shape'] = 'fold'
        return sig

    def extra_evidence(self):
        return {'update_lists_compared_with_the_monitor_model': getattr(self, 'mon_lists', 0), 'direct_operation_runs_compared': getattr(self, 'direct', 0)}

    def features(self, c):
        if 'omerge' in c:
            return ['online-merge:' + c['omerge']]
        if 'binrun' in c:
            return ['online-binop:' + c['binrun']]
        if 'onlop' in c:
            return ['online-op:' + c['onlop']]
        return Check.features(self, c)

    def nontrivial(self, c):
        if 'omerge' in c:
            return len(c['a']) + len(c['b']) >= 3
        if 'binrun' in c or 'onlop' in c:
            return len(c['batches']) >= 2
        return bool(fml.ops(c['f']) & (fml.UN | fml.BIN | fml.TUN | fml.TBIN) - {'not', 'and', 'or', 'implies', 'iff', 'xor'}) and len(c['chunkings']) >= 4

    def key(self, c):
        if 'omerge' in c or 'binrun' in c or 'onlop' in c:
            return json.dumps(c, sort_keys=True)
        return json.dumps([fml.to_sx(c['f']), c['sigs']])

    def describe(self, c):
        if 'omerge' in c or 'binrun' in c or 'onlop' in c:
            return c
        return {'spec': 'out = ' + dense.dense_formula_text(c['f']), 'pastified': c['past'], 'signals': [dense.to_impl(s) for s in c['sigs']], 'chunkings': len(c['chunkings'])}

    def normalize(self, c):
        if 'omerge' in c or 'binrun' in c or 'onlop' in c:
            return c
        # after shrinking the signals the chunkings are recomputed: one batch per sample and everything at once
        c = dict(c)
        used = fml.fvars(c['f'])
        ok = all(str(i) in ch and ch[str(i)][-1][1] == len(c['sigs'][i]) for ch in c['chunkings'] for i in used) if c.get('chunkings') else False
        if not ok:
            k = min(len(c['sigs'][i]) for i in used) if used else 1
            c['chunkings'] = [{str(i): [(0, len(c['sigs'][i]))] for i in used}]
            if k >= 2:
                c['chunkings'].append({str(i): [(j, j + 1) for j in range(k - 1)] + [(k - 1, len(c['sigs'][i]))] for i in used})
        c['past'] = fml.has_future(c['f'])
        return c


def main(tier, seed, replay=None):
    return C05().main(tier, seed, replay)
