# c16.py — C16: offline results inside the settled region (t + horizon < |w1|)
# do not change when the trace is extended.
import json
from harness import fml
from harness.common import parse_fields
from harness.runner import Check, offline_case, need_vars, expect_vals


class C16(Check):
    PID = 'C16'
    RULE = ('seeded random formulas without unbounded future (all other operators), trace w1 of length n1 and an extension w2; '
            'offline evaluate() on both (15% of the cases with their bounds in unit notations); every t with t + hor(phi) < n1 must agree (hor from the model); also impl = model on both traces; '
            'non-trivial = formula with >= 3 nodes and a non-empty settled region; distinct by (formula, w1, w2)')

    def gen_cases(self, rng, tier):
        cases = []
        nrand = 500 if tier == 'quick' else 6000
        P = ('pred', 'geq', ('var', 0), ('const', 1))
        base = [('evt', 0, 2, P), ('alwt', 1, 3, P), ('untilt', 0, 2, P, ('not', P)), ('next', P), ('snext', ('next', P)),
                ('once', ('evt', 1, 1, P)), ('hist', P), ('since', P, ('not', P)), ('oncet', 1, 2, ('alwt', 0, 1, P)),
                ('evt', 1, 2, ('evt', 0, 3, P)), ('prev', ('next', P)), ('rise', ('evt', 0, 1, P))]
        items = [(f, 1) for f in base]
        for i in range(nrand):
            nv = rng.choice([1, 2, 2, 3])
            d = rng.choice([1, 2, 2, 3, 3, 4] if tier == 'quick' else [1, 2, 3, 4, 4, 5])
            g = fml.Gen(rng, nvars=nv, unbounded_future=False, maxb=rng.choice([1, 2, 3]))
            f = g.formula(d)
            if fml.size(f) > 50:
                continue
            items.append((f, nv))
        for (f, nv) in items:
            nv = need_vars(f, nv)
            for rep in range(2 if len(cases) < 40 else 1):
                n1 = rng.choice([1, 2, 3, 5, 8, 12, 20])
                ext = rng.choice([1, 1, 2, 5, 9])
                cols2 = fml.gen_trace(rng, nv, n1 + ext)
                cols1 = [c[:n1] for c in cols2]
                c = {'f': f, 'n': n1, 'n2': n1 + ext, 'nv': nv, 'cols': cols1, 'cols2': cols2, 'times': list(range(n1))}
                if rng.random() < 0.15:
                    # the bounds in another unit notation (explicit units on either or both ends, another default unit, the period in another unit)
                    from harness.c08 import spelling
                    sp = spelling(rng, f)
                    if sp:
                        c['spell'] = sp
                cases.append(c)
        return cases

    def normalize(self, c):
        if 'spell' in c and fml.to_sx(c['f']) != c['spell'].get('fkey'):
            c = {k: v for k, v in c.items() if k != 'spell'}
        return c

    def model_lines(self, c):
        return ['(info %s)' % fml.to_sx(c['f']),
                '(off std %s %d %s)' % (fml.to_sx(c['f']), c['n'], fml.trace_sx(c['cols'])),
                '(off std %s %d %s)' % (fml.to_sx(c['f']), c['n2'], fml.trace_sx(c['cols2']))]

    def impl_cases(self, c):
        # the extension keeps the first n values of every column; a shrunk case may have cut cols only
        cols2 = [list(c['cols'][i]) + list(c['cols2'][i][len(c['cols'][i]):]) if len(c['cols2'][i]) >= len(c['cols'][i]) else list(c['cols'][i]) for i in range(c['nv'])]
        n2 = len(cols2[0])
        sp = {k: v for k, v in c.get('spell', {}).items() if k != 'fkey'}
        return [offline_case(c['f'], c['cols'], list(range(c['n'])), c['nv'], **sp),
                offline_case(c['f'], cols2, list(range(n2)), c['nv'], **sp)]

    def judge(self, c, mlines, ires):
        info = parse_fields(mlines[0])
        m1, m2 = parse_fields(mlines[1]), parse_fields(mlines[2])
        if 'ERROR' in info or 'ERROR' in m1 or 'ERROR' in m2:
            return 'model-error', [mlines]
        if info['BF'] != ['1']:
            return 'dropped', None
        if m1['EXACT'] != ['1'] or m2['EXACT'] != ['1']:
            return 'dropped', None
        if len(c['cols2'][0]) < len(c['cols'][0]) or any(c['cols2'][i][:c['n']] != c['cols'][i] for i in range(c['nv'])):
            return 'dropped', None
        h = int(info['HOR'][0])
        vals = []
        for i in ires:
            if i['setup']['status'] != 'ok' or i['calls'][0]['status'] != 'ok':
                return 'violation', {'expected': 'evaluate() returns', 'observed': i['setup'] if i['setup']['status'] != 'ok' else i['calls'][0]}
            vals.append([p[1] for p in i['calls'][0]['value']])
        settled = [t for t in range(c['n']) if t + h < c['n']]
        bad = [t for t in settled if vals[0][t] != vals[1][t]]
        det = {'horizon': h, 'settled': settled, 'on_w1': vals[0], 'on_w2': vals[1]}
        if bad:
            return 'violation', dict(det, expected='equal values at the settled samples', observed={'differs_at': bad})
        r1 = expect_vals([fml.parse_val(x) for x in m1['RHO']])
        r2 = expect_vals([fml.parse_val(x) for x in m2['RHO']])
        if json.loads(json.dumps(r1)) != vals[0] or json.loads(json.dumps(r2)) != vals[1]:
            return 'violation', dict(det, expected={'rho_w1': r1, 'rho_w2': r2}, observed={'w1': vals[0], 'w2': vals[1]}, note='implementation differs from rho (C01) on one of the two traces')
        if [r2[t] for t in settled] != [r1[t] for t in settled]:
            return 'model-vs-spec', det
        c['_settled'] = len(settled)
        return 'ok', None

    def nontrivial(self, c):
        return fml.size(c['f']) >= 3 and c.get('_settled', 0) > 0

    def key(self, c):
        return json.dumps([fml.to_sx(c['f']), c['cols'], c['cols2']])

    def describe(self, c):
        return {'spec': c.get('spell', {}).get('spec', 'out = ' + fml.to_text(c['f'])), 'w1': c['cols'], 'w2': c['cols2']}


def main(tier, seed, replay=None):
    from harness import densex
    return densex.extend(C16, densex.D16())().main(tier, seed, replay)
