# shrink.py — greedy delta-debugging of failing cases; signature matching for
# known findings.
from harness import fml


def detuple(x):
    if isinstance(x, list):
        return tuple(detuple(y) for y in x)
    return x


def _replace_at(f, path, new):
    if not path:
        return new
    kids = fml.children(f)
    kids = list(kids)
    kids[path[0]] = _replace_at(kids[path[0]], path[1:], new)
    return fml.rebuild(f, kids)


def _paths(f, prefix=()):
    yield prefix, f
    for i, c in enumerate(fml.children(f)):
        for p in _paths(c, prefix + (i,)):
            yield p


def formula_candidates(f):
    """smaller formulas, most aggressive first"""
    seen = set()
    for path, sub in _paths(f):
        for c in fml.children(sub):
            g = _replace_at(f, path, c)
            if g not in seen:
                seen.add(g)
                yield g
    for path, sub in _paths(f):
        if sub[0] not in ('var', 'const'):
            for leaf in (('var', 0), ('const', 0)):
                g = _replace_at(f, path, leaf)
                if g not in seen:
                    seen.add(g)
                    yield g
    for path, sub in _paths(f):
        if sub[0] in fml.TUN or sub[0] in fml.TBIN:
            b, e = sub[1], sub[2]
            for (b2, e2) in ((0, e), (b, b), (max(b - 1, 0), max(e - 1, 0)), (b, max(e - 1, b)), (0, 0)):
                if (b2, e2) != (b, e) and b2 <= e2:
                    g = _replace_at(f, path, (sub[0], b2, e2) + tuple(sub[3:]))
                    if g not in seen:
                        seen.add(g)
                        yield g
        if sub[0] == 'const' and sub[1] not in (0, 1):
            yield _replace_at(f, path, ('const', 0))
            yield _replace_at(f, path, ('const', 1))
        if sub[0] == 'var' and sub[1] > 0:
            yield _replace_at(f, path, ('var', 0))


def dense_candidates(c):
    sigs = c['sigs']
    for i, s in enumerate(sigs):
        if len(s) > 1:
            for j in range(len(s)):
                d = dict(c)
                d['sigs'] = [list(x) for x in sigs]
                d['sigs'][i] = s[:j] + s[j + 1:]
                yield d
    for i, s in enumerate(sigs):
        for j, (t, v) in enumerate(s):
            for nv in (0, 1, -1):
                if v != nv and abs(nv) <= abs(v):
                    d = dict(c)
                    d['sigs'] = [[list(p) for p in x] for x in sigs]
                    d['sigs'][i][j][1] = nv
                    yield d
                    break


def data_candidates(c):
    if 'sigs' in c:
        for d in dense_candidates(c):
            yield d
        return
    if 'cols' not in c:
        return
    n = c['n']
    if n > 1:
        for m in sorted({1, n // 2, n - 1}):
            if 1 <= m < n:
                d = dict(c)
                d['n'] = m
                d['cols'] = [col[:m] for col in c['cols']]
                if 'times' in c:
                    d['times'] = c['times'][:m]
                yield d
                d = dict(c)
                d['n'] = m
                d['cols'] = [col[n - m:] for col in c['cols']]
                if 'times' in c:
                    d['times'] = c['times'][n - m:]
                yield d
    if 'times' in c and c['times'] != list(range(n)):
        d = dict(c)
        d['times'] = list(range(n))
        yield d
    for i, col in enumerate(c['cols']):
        for j, v in enumerate(col):
            for nv in (0, 1, -1):
                if v != nv and abs(nv) <= abs(v):
                    d = dict(c)
                    d['cols'] = [list(x) for x in c['cols']]
                    d['cols'][i][j] = nv
                    yield d
                    break


def shrink_case(c, fails, budget=250):
    """fails(case) -> (bool, detail).  Returns (smallest failing case, its detail)."""
    c = dict(c)
    c['f'] = detuple(c['f'])
    best_detail = None
    spent = 0
    improved = True
    while improved and spent < budget:
        improved = False
        for g in formula_candidates(c['f']):
            if spent >= budget:
                break
            fv = fml.fvars(g)
            d = dict(c)
            d['f'] = g
            spent += 1
            try:
                ok, det = fails(d)
            except Exception:
                ok, det = False, None
            if ok:
                c, best_detail, improved = d, det, True
                break
        if improved:
            continue
        for d in data_candidates(c):
            if spent >= budget:
                break
            spent += 1
            try:
                ok, det = fails(d)
            except Exception:
                ok, det = False, None
            if ok:
                c, best_detail, improved = d, det, True
                break
    return c, best_detail


def sig_match(pattern, sig):
    """pattern: {'ops_any': [...], 'ops_all': [...], 'ops_within': [...], 'kind': .., 'status': .., 'n_max': ..}"""
    if not pattern:
        return False
    ops = set(sig.get('ops', []))
    if 'ops_any' in pattern and not (ops & set(pattern['ops_any'])):
        return False
    if 'ops_all' in pattern and not set(pattern['ops_all']) <= ops:
        return False
    if 'ops_within' in pattern and not ops <= set(pattern['ops_within']):
        return False
    for k in ('kind', 'status', 'shape', 'monitor'):
        if k in pattern and pattern[k] != sig.get(k):
            return False
    if 'n_max' in pattern and sig.get('n', 0) > pattern['n_max']:
        return False
    if 'n_min' in pattern and sig.get('n', 0) < pattern['n_min']:
        return False
    return True
