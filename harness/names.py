# names.py — the two streams of C02 about node names (NodeName.v / OnlineNamed.v): generators of case dicts, the
# translation of the dumps returned by the impl.py call ['names'] into the model commands `nname` / `nmon`, the judges.
# rtamt is reached through harness/impl.py only.
from fractions import Fraction

U = {'s': 10 ** 9, 'ms': 10 ** 6, 'us': 10 ** 3, 'ns': 1}
UNITS = ['', 's', 'ms', 'us', 'ns']
CMP = {'<=': 'leq', '<': 'lt', '>=': 'geq', '>': 'gt', '==': 'eq', '!=': 'neq'}
TIMED1 = ('TimedOnce', 'TimedHistorically', 'TimedEventually', 'TimedAlways')
TIMED2 = ('TimedSince', 'TimedUntil', 'TimedPrecedes')


def hexs(s):
    return 'x' + s.encode().hex()


# ------------------------------------------------------------------ dumps (impl.names_dump) -> model commands
def bound_sx(b):
    # b = ['bound', numerator, denominator, unit]: exact decimal strings
    num, den, unit = int(b[1]), int(b[2]), b[3]
    if num < 0 or den <= 0:
        raise ValueError('negative bound %s/%s' % (b[1], b[2]))
    return '(%x %x %s)' % (num, den, unit if unit else '_')


def dump_sx(d, names):
    """the s-expression of NodeName.node for a dump; appends the names, the root first"""
    cls = d[0]
    names.append(d[1])
    if cls == 'Variable':
        return '(Variable %s %s)' % (hexs(d[2]), hexs(d[3]))
    if cls == 'Constant':
        return '(Constant %s)' % hexs(d[2])
    if cls == 'Predicate':
        return '(Predicate %s %s %s)' % (CMP[d[2]], dump_sx(d[3], names), dump_sx(d[4], names))
    if cls in TIMED1:
        return '(%s %s %s %s)' % (cls, bound_sx(d[2]), bound_sx(d[3]), dump_sx(d[4], names))
    if cls in TIMED2:
        return '(%s %s %s %s %s)' % (cls, bound_sx(d[2]), bound_sx(d[3]), dump_sx(d[4], names), dump_sx(d[5], names))
    return '(%s %s)' % (cls, ' '.join(dump_sx(k, names) for k in d[2:]))


def is_node(x):
    return isinstance(x, list) and x[0] != 'bound'


def strip_names(d):
    """the dump without the names (what a node IS)"""
    return [d[0]] + [strip_names(x) if is_node(x) else x for x in d[2:]]


def all_nodes(d, out):
    out.append(d)
    for x in d[2:]:
        if is_node(x):
            all_nodes(x, out)
    return out


def classes(d, out):
    for nd in all_nodes(d, []):
        out.add(nd[0])
    return out


def judge_names_call(forest, mlines):
    """forest: the value of one ['names'] call (a dump per assertion); mlines: the model's answers to the nname commands"""
    by_name = {}
    nnodes = 0
    for d, line in zip(forest, mlines):
        names = []
        dump_sx(d, names)
        toks = line.split()
        if toks[:1] != ['NNAME']:
            return 'model-error', line[:300]
        got = [bytes.fromhex(t[1:]).decode() for t in toks[2:]]
        det = {'expected': {'source': 'nname of every node of the tree (NodeName.v)', 'values': got}, 'observed': names, 'tree': d}
        if got != names:
            k = next((j for j in range(min(len(got), len(names))) if got[j] != names[j]), None)
            det['first_difference'] = {'model': got[k], 'rtamt': names[k]} if k is not None else None
            return 'model-differs', det
        if toks[1] != '1':
            return 'model-differs', dict(det, expected={'source': 'nwf: a variable is an Identifier cut at its first dot, a constant is str(float)', 'values': True}, observed=False)
        for nd in all_nodes(d, []):
            s = strip_names(nd)
            prev = by_name.setdefault(nd[1], s)
            nnodes += 1
            if prev != s:
                return 'violation', {'expected': {'source': 'C02_names_injective: two nodes of a specification with one name are the same node', 'values': None},
                                     'observed': {'name': nd[1], 'node1': prev, 'node2': s}}
    return 'ok', nnodes


# ------------------------------------------------------------------ stream "names": random specification texts
KEYWORDS = set('abs sqrt exp pow log ln s ms us ns ps topic import input output internal const real float long complex int bool '
               'assertion specification from not or and iff implies xor rise fall always G eventually F until U unless W '
               'historically H once O since S next X prev Y s_next sX s_prev sY true TRUE false FALSE out'.split())
ID_POOL = ['x', 'y', 'z', 'x.', '$s', '_u', 'a/b', 'x/2', 'once1', 'inf', 'nan', 'infinity', 'e5', 'sqrtx', 'G1', 'not_', 's_prevx',
           'pre', 'x1', 'X_', 'always_', 'e', 'E1', 'i', 'n', 'f', 'a', 'in', 'na', 'nf', 'inf1', 'nan_', 'xe10', 'x/y/z', 'm.value',
           'm.other', 'm.inner.v', 'w.value', 'w.inner.v']


def rand_ident(rng):
    if rng.random() < 0.7:
        return rng.choice(ID_POOL)
    while True:
        s = rng.choice('abcxyzEIFN_$ens') + ''.join(rng.choice('abefinxyzEINF_$0123456789/') for _ in range(rng.randint(0, 5)))
        if s not in KEYWORDS and '//' not in s and '/*' not in s and not s.startswith('m') and not s.startswith('w') and not s.startswith('k') and not s.startswith('sub'):
            return s


def rand_literal(rng):
    import struct
    r = rng.random()
    if r < 0.25:
        return rng.choice(['0', '1', '2', '7', '10', '1_000', '0x1F', '0b101', '0X0', '123456789012345678901234567890', '9007199254740993'])
    if r < 0.5:
        return rng.choice(['1.5', '.25', '3.', '1e3', '1E+22', '2.5e-7', '1e400', '0.1', '1e16', '1e15', '123456.789e3', '0.0', '1e-320', '4.9e-324', '0e0', '1.0e-5', '.1e-3', '1_0.2_5'])
    if r < 0.75:
        return repr(abs(struct.unpack('<d', struct.pack('<Q', rng.getrandbits(64)))[0])).replace('nan', '7').replace('inf', '1e999')
    return '%d.%d' % (rng.randint(0, 999), rng.randint(0, 999))


def rand_bound_text(rng):
    r = rng.random()
    if r < 0.5:
        return str(rng.randint(0, 12))
    if r < 0.7:
        return rng.choice(['0.5', '1.25', '2.', '.75', '1e1', '15e-1', '0x3', '0b10', '1_0', '0.001', '1e3', '2.5e2', '0.1', '0.3'])
    if r < 0.8:
        return rng.choice(['kb', 'kc'])     # declared constants
    return '%d.%d' % (rng.randint(0, 20), rng.randint(0, 99))


def bound_value(t, u):
    t = t.replace('_', '')
    try:
        v = Fraction(t)
    except ValueError:
        try:
            v = Fraction(int(t, 0))
        except ValueError:
            return None         # a declared constant
    return v * U[u]


def rand_interval(rng, du):
    # mostly intervals that the parser accepts (lower bound <= upper bound as durations)
    for attempt in range(20):
        sep = rng.choice([',', ':', ' , ', ' :'])
        b, bu, e, eu = rand_bound_text(rng), rng.choice(UNITS), rand_bound_text(rng), rng.choice(UNITS)
        rb = bu if bu else (eu if eu else du)
        re_ = eu if eu else rb
        vb, ve = bound_value(b, rb), bound_value(e, re_)
        if vb is None or ve is None or vb <= ve or rng.random() < 0.03:
            break
    return '[%s %s%s%s %s]' % (b, bu, sep, e, eu)


UNOPS = ['not', '!', 'always', 'G', 'eventually', 'F', 'historically', 'H', 'once', 'O', 'next', 'X', 'prev', 'Y', 's_next', 'sX', 's_prev', 'sY', '-']
TEMP1 = {'always', 'G', 'eventually', 'F', 'historically', 'H', 'once', 'O'}
FUN1 = ['abs', 'sqrt', 'exp', 'ln', 'rise', 'fall']
BINOPS = ['and', '&', 'or', '|', 'implies', '->', 'iff', '<->', 'xor', 'until', 'U', 'unless', 'W', 'since', 'S', '+', '-', '*', '/',
          '<=', '<', '>=', '>', '==', '!==']
TEMP2 = {'until', 'U', 'unless', 'W', 'since', 'S'}


def rand_expr(rng, depth, stl, du, subs):
    if depth <= 0 or rng.random() < 0.15:
        r = rng.random()
        if r < 0.55:
            return rand_ident(rng)
        if r < 0.8:
            return rand_literal(rng)
        if r < 0.9 and subs:
            return rng.choice(subs)
        return rng.choice(['kb', 'kc', 'kn', 'ki', 'kz'])
    r = rng.random()
    if r < 0.25:
        o = rng.choice(UNOPS)
        iv = rand_interval(rng, du) if (stl and o in TEMP1 and rng.random() < 0.7) else ''
        return '%s%s (%s)' % (o, iv, rand_expr(rng, depth - 1, stl, du, subs))
    if r < 0.35:
        return '%s(%s)' % (rng.choice(FUN1), rand_expr(rng, depth - 1, stl, du, subs))
    if r < 0.42:
        return '%s(%s, %s)' % (rng.choice(['pow', 'log']), rand_expr(rng, depth - 1, stl, du, subs), rand_expr(rng, depth - 1, stl, du, subs))
    o = rng.choice(BINOPS)
    iv = rand_interval(rng, du) if (stl and o in TEMP2 and rng.random() < 0.7) else ''
    a, b = rand_expr(rng, depth - 1, stl, du, subs), rand_expr(rng, depth - 1, stl, du, subs)
    if rng.random() < 0.25:
        b = a       # duplicate sub-terms
    return '(%s) %s%s (%s)' % (a, o, iv, b)


def gen_names_case(rng):
    kind = rng.choice(['discrete', 'discrete', 'dense', 'ltl-discrete'])
    stl = kind != 'ltl-discrete'
    du = rng.choice(['s', 'ms', 'us', 'ns']) if stl else 's'
    consts = [['kb', 'float', rng.choice(['1', '2', '0.5', '3'])], ['kc', 'float', rng.choice(['4', '8.5', '12'])],
              ['kn', 'float', rng.choice(['nan', '-1.5', '1e-7'])], ['ki', 'float', rng.choice(['inf', '-inf', 'Infinity'])],
              ['kz', 'float', rng.choice(['-0', '-0.0', '0', '1e22', '1e21', '123456789.123456789'])]]
    subs, lines = [], []
    for i in range(rng.randint(0, 2)):
        name = 'sub%d' % i
        lines.append('%s = %s;' % (name, rand_expr(rng, rng.randint(1, 3), stl, du, subs)))
        subs.append(name)
    lines.append('out = %s;' % rand_expr(rng, rng.randint(1, 5), stl, du, subs))
    c = {'stream': 'names', 'monitor': kind, 'consts': consts, 'spec': '\n'.join(lines), 'past': rng.random() < 0.6}
    if stl:
        c['unit'] = du
    return c


def names_impl_case(c):
    case = {'monitor': c['monitor'], 'vars': [], 'objvars': ['m', 'w'], 'consts': c['consts'], 'spec': c['spec'],
            'calls': [['names']] + ([['pastify'], ['names']] if c.get('past') else [])}
    if c.get('unit'):
        case['unit'] = c['unit']
    return case


# ------------------------------------------------------------------ stream "named-monitor": past-time forests with data
VARS = ['x', 'y', 'z']


def spell_bound(rng, ticks, period_ns, du):
    """a text for ticks * period, in a random unit (or without unit: the default unit)"""
    ns = ticks * period_ns
    for attempt in range(10):
        u = rng.choice(['', 's', 'ms', 'us', 'ns'])
        scale = U[u if u else du]
        if ns % scale == 0:
            return '%d' % (ns // scale), u
        if (ns * 10) % scale == 0 and rng.random() < 0.7:
            return '%d.%d' % (ns * 10 // scale // 10, ns * 10 // scale % 10), u
    return '%d' % ns, 'ns'


def past_interval(rng, period_ns, du):
    b = rng.randint(0, 3)
    e = b + rng.randint(0, 4)
    while True:
        (tb, ub), (te, ue) = spell_bound(rng, b, period_ns, du), spell_bound(rng, e, period_ns, du)
        # a unit on one end only is inherited by the other end: keep the spelling only if both ends mean what they should
        rb = ub if ub else (ue if ue else du)
        re_ = ue if ue else rb
        if Fraction(tb) * U[rb] == b * period_ns and Fraction(te) * U[re_] == e * period_ns:
            return '[%s%s%s%s%s]' % (tb, ub, rng.choice([',', ':']), te, ue)


def small_const(rng):
    k = rng.randint(-3, 6)
    if k < 0:
        return '(-%s)' % (rng.choice(['%d', '%d.0', '%d.00']) % (-k))
    return rng.choice(['%d', '%d.0', '%de0', '%d.']) % k


def arith(rng, depth):
    if depth <= 0 or rng.random() < 0.5:
        return rng.choice(VARS) if rng.random() < 0.7 else small_const(rng)
    r = rng.random()
    if r < 0.2:
        return 'abs(%s)' % arith(rng, depth - 1)
    if r < 0.3:
        return '-(%s)' % arith(rng, depth - 1)
    return '(%s) %s (%s)' % (arith(rng, depth - 1), rng.choice(['+', '-']), arith(rng, depth - 1))


def pred(rng):
    return '(%s) %s (%s)' % (arith(rng, 2), rng.choice(['<=', '<', '>=', '>', '==', '!==']), arith(rng, 1))


def past_formula(rng, depth, period_ns, du, subs, pool):
    if depth <= 0 or rng.random() < 0.12:
        r = rng.random()
        if r < 0.2 and subs:
            return rng.choice(subs)
        if r < 0.45 and pool:
            return rng.choice(pool)         # a duplicated sub-term
        return pred(rng)
    r = rng.random()
    if r < 0.35:
        o = rng.choice(['not', 'rise', 'fall', 'prev', 's_prev', 'once', 'historically', 'once', 'historically', 'Y', 'O', 'H', '!'])
        iv = past_interval(rng, period_ns, du) if o in ('once', 'historically', 'O', 'H') and rng.random() < 0.6 else ''
        a = past_formula(rng, depth - 1, period_ns, du, subs, pool)
        out = '%s(%s)' % (o, a) if o in ('rise', 'fall') else '%s%s (%s)' % (o, iv, a)
    else:
        o = rng.choice(['and', 'or', 'implies', 'since', 'since', '&', '|', '->', 'S'])
        iv = past_interval(rng, period_ns, du) if o in ('since', 'S') and rng.random() < 0.6 else ''
        out = '(%s) %s%s (%s)' % (past_formula(rng, depth - 1, period_ns, du, subs, pool), o, iv, past_formula(rng, depth - 1, period_ns, du, subs, pool))
    if rng.random() < 0.5:
        pool.append(out)
    return out


def gen_named_case(rng):
    du = rng.choice(['s', 'ms', 'us'])
    per, pu = rng.choice([(1, 's'), (500, 'ms'), (2, 'ms'), (100, 'us'), (1, 'ms'), (250, 'us')])
    period_ns = per * U[pu]
    subs, pool, ls = [], [], []
    for j in range(rng.randint(0, 2)):
        ls.append('sub%d = %s;' % (j, past_formula(rng, rng.randint(1, 3), period_ns, du, subs, pool)))
        subs.append('sub%d' % j)
    ls.append('out = %s;' % past_formula(rng, rng.randint(1, 5), period_ns, du, subs, pool))
    n = rng.choice([1, 2, 3, 5, 8, 13, 20])
    cols = [[rng.randint(-4, 7) for _ in range(n)] for _ in VARS]
    times = [(k * period_ns // U[du] if period_ns % U[du] == 0 else k) for k in range(n)]
    return {'stream': 'named', 'unit': du, 'period': [per, pu], 'spec': '\n'.join(ls), 'n': n, 'cols': cols, 'times': times}


def named_impl_case(c):
    calls = [['names']]
    for k in range(c['n']):
        calls.append(['update', c['times'][k], [[v, float(c['cols'][a][k])] for a, v in enumerate(VARS)]])
    return {'monitor': 'discrete-online', 'vars': list(VARS), 'unit': c['unit'], 'period': [c['period'][0], c['period'][1], 0.1],
            'spec': c['spec'], 'calls': calls}


def nmon_line(c, forest):
    roots = [dump_sx(d, []) for d in forest]
    return '(nmon %s %d %s (%s) (%s) %d (%s))' % (
        c['unit'], c['period'][0], c['period'][1], ' '.join('(%s %s)' % (hexs(v), hexs('')) for v in VARS), ' '.join(roots), c['n'],
        ' '.join('(' + ' '.join(str(x) for x in col) + ')' for col in c['cols']))
