# fml.py — formulas as nested tuples, printers (rtamt text, model s-expression),
# structured generators.  Standard library only.
import math

VARS = ['xa', 'xb', 'xc', 'xd']

UN = {'not', 'rise', 'fall', 'prev', 'sprev', 'next', 'snext', 'once', 'hist', 'ev', 'alw'}
BIN = {'and', 'or', 'implies', 'iff', 'xor', 'since', 'until', 'unless'}
TUN = {'oncet', 'histt', 'evt', 'alwt'}
TBIN = {'sincet', 'untilt', 'precedes', 'unlesst'}
A1 = {'abs', 'sqrt', 'exp', 'ln', 'neg'}
A2 = {'add', 'sub', 'mul', 'div', 'pow', 'log'}
CMP = {'leq': '<=', 'lt': '<', 'geq': '>=', 'gt': '>', 'eq': '==', 'neq': '!=='}
FUTURE = {'next', 'snext', 'ev', 'alw', 'until', 'evt', 'alwt', 'untilt', 'unless', 'unlesst'}
UNB_FUTURE = {'ev', 'alw', 'until', 'unless'}

KW = {'not': 'not', 'rise': 'rise', 'fall': 'fall', 'prev': 'prev', 'sprev': 's_prev',
      'next': 'next', 'snext': 's_next', 'once': 'once', 'hist': 'historically',
      'ev': 'eventually', 'alw': 'always', 'and': 'and', 'or': 'or', 'implies': 'implies',
      'iff': 'iff', 'xor': 'xor', 'since': 'since', 'until': 'until',
      'oncet': 'once', 'histt': 'historically', 'evt': 'eventually', 'alwt': 'always',
      'sincet': 'since', 'untilt': 'until', 'unless': 'unless', 'unlesst': 'unless'}
A2SYM = {'add': '+', 'sub': '-', 'mul': '*', 'div': '/'}


def children(f):
    op = f[0]
    if op in ('var', 'const', 'ref'):
        return []
    if op in ('a1',):
        return [f[2]]
    if op in ('a2', 'pred'):
        return [f[2], f[3]]
    if op in UN:
        return [f[1]]
    if op in BIN:
        return [f[1], f[2]]
    if op in TUN:
        return [f[3]]
    if op in TBIN:
        return [f[3], f[4]]
    raise ValueError(op)


def rebuild(f, kids):
    op = f[0]
    if op in ('var', 'const', 'ref'):
        return f
    if op == 'a1':
        return ('a1', f[1], kids[0])
    if op in ('a2', 'pred'):
        return (op, f[1], kids[0], kids[1])
    if op in UN:
        return (op, kids[0])
    if op in BIN:
        return (op, kids[0], kids[1])
    if op in TUN:
        return (op, f[1], f[2], kids[0])
    if op in TBIN:
        return (op, f[1], f[2], kids[0], kids[1])
    raise ValueError(op)


def subformulas(f):
    yield f
    for c in children(f):
        for s in subformulas(c):
            yield s


def ops(f):
    out = set()
    for s in subformulas(f):
        if s[0] in ('a1', 'a2'):
            out.add(s[1])
        elif s[0] == 'pred':
            out.add('pred_' + s[1])
        else:
            out.add(s[0])
    return out


def size(f):
    return 1 + sum(size(c) for c in children(f))


def depth(f):
    return 1 + max([depth(c) for c in children(f)] + [0])


def cost1(f, n):
    """estimated number of leaf evaluations of the naive specification evaluator rho at one time point"""
    op = f[0]
    k = [cost1(c, n) for c in children(f)]
    if op in ('var', 'const', 'ref'):
        return 1
    if op in ('once', 'hist', 'ev', 'alw'):
        return n * k[0]
    if op in ('since', 'until', 'unless'):
        return n * k[1] + (n * n // 2 + 1) * k[0] + (n * k[0] if op == 'unless' else 0)
    if op in TUN:
        return (min(f[2], n) - min(f[1], n) + 1) * k[0]
    if op in TBIN:
        wdt = min(f[2], n) - min(f[1], n) + 1
        return wdt * k[1] + wdt * (min(f[2], n) + 1) * k[0]
    return sum(k) + 1


def cost(f, n):
    return n * size(f) * cost1(f, n)


def fvars(f):
    return sorted({s[1] for s in subformulas(f) if s[0] == 'var'})


def has_future(f):
    return any(s[0] in FUTURE for s in subformulas(f))


def num(c):
    # constants as rtamt literals (non-negative integers; +inf as a literal beyond the largest float)
    if c == math.inf:
        return '1e999'
    return str(int(c))


def to_text(f, bound=None):
    """Fully parenthesised rtamt text.  bound(b,e) renders an interval."""
    if bound is None:
        bound = lambda b, e: '[%d,%d]' % (b, e)
    op = f[0]
    t = lambda g: to_text(g, bound)
    if op == 'var':
        return VARS[f[1]]
    if op == 'ref':
        return f[1]
    if op == 'const':
        return num(f[1])
    if op == 'a1':
        if f[1] == 'neg':
            return '-(' + t(f[2]) + ')'
        return f[1] + '(' + t(f[2]) + ')'
    if op == 'a2':
        if f[1] in A2SYM:
            return '(' + t(f[2]) + ') ' + A2SYM[f[1]] + ' (' + t(f[3]) + ')'
        return f[1] + '(' + t(f[2]) + ',' + t(f[3]) + ')'
    if op == 'pred':
        return '(' + t(f[2]) + ') ' + CMP[f[1]] + ' (' + t(f[3]) + ')'
    if op in ('rise', 'fall'):
        return op + '(' + t(f[1]) + ')'
    if op in UN:
        return KW[op] + '(' + t(f[1]) + ')'
    if op in BIN:
        return '(' + t(f[1]) + ') ' + KW[op] + ' (' + t(f[2]) + ')'
    if op in TUN:
        return KW[op] + bound(f[1], f[2]) + '(' + t(f[3]) + ')'
    if op in ('sincet', 'untilt', 'unlesst'):
        return '(' + t(f[3]) + ') ' + KW[op] + bound(f[1], f[2]) + ' (' + t(f[4]) + ')'
    raise ValueError('no text for ' + op)


def add_unless(rng, f, prob=0.5):
    """turn some until nodes into the sugar unless / unless[a,b]"""
    if f[0] == 'until' and rng.random() < prob:
        return ('unless', add_unless(rng, f[1], prob), add_unless(rng, f[2], prob))
    if f[0] == 'untilt' and rng.random() < prob:
        return ('unlesst', f[1], f[2], add_unless(rng, f[3], prob), add_unless(rng, f[4], prob))
    if f[0] in ('unless', 'unlesst'):
        return f
    return rebuild(f, [add_unless(rng, c, prob) for c in children(f)])


def desugar(f):
    """phi unless psi = always(phi) or (phi until psi); phi unless[a,b] psi = always[0,b](phi) or (phi until[a,b] psi)"""
    if f[0] == 'unless':
        a, b = desugar(f[1]), desugar(f[2])
        return ('or', ('alw', a), ('until', a, b))
    if f[0] == 'unlesst':
        a, b = desugar(f[3]), desugar(f[4])
        return ('or', ('alwt', 0, f[2], a), ('untilt', f[1], f[2], a, b))
    return rebuild(f, [desugar(c) for c in children(f)])


def to_sx(f):
    if f[0] in ('unless', 'unlesst') or ('unless' in str(f)):
        f = desugar(f)
    op = f[0]
    if op == 'var':
        return '(var %d)' % f[1]
    if op == 'const':
        return '(const %s)' % val_sx(f[1])
    if op in ('a1',):
        return '(a1 %s %s)' % (f[1], to_sx(f[2]))
    if op in ('a2', 'pred'):
        return '(%s %s %s %s)' % (op, f[1], to_sx(f[2]), to_sx(f[3]))
    if op in UN:
        return '(%s %s)' % (op, to_sx(f[1]))
    if op in BIN:
        return '(%s %s %s)' % (op, to_sx(f[1]), to_sx(f[2]))
    if op in TUN:
        return '(%s %d %d %s)' % (op, f[1], f[2], to_sx(f[3]))
    if op in TBIN:
        return '(%s %d %d %s %s)' % (op, f[1], f[2], to_sx(f[3]), to_sx(f[4]))
    raise ValueError(op)


def val_sx(v):
    if v == math.inf:
        return 'inf'
    if v == -math.inf:
        return '-inf'
    if float(v) != int(v):
        raise ValueError('non-integer value %r' % (v,))
    return str(int(v))


def parse_val(s):
    if s == 'inf':
        return math.inf
    if s == '-inf':
        return -math.inf
    return int(s)


def trace_sx(cols):
    return '(' + ' '.join('(' + ' '.join(val_sx(v) for v in c) + ')' for c in cols) + ')'


# ---------------------------------------------------------------- generators

class Gen(object):
    """Grammar-directed generator.  kinds: which operator families are allowed."""

    def __init__(self, rng, nvars=2, past=True, future=True, unbounded_future=True,
                 arith=True, fancy_arith=False, maxb=3, iffxor=True, risefall=True, prevnext=True,
                 timed=True, untimed=True, raw_leaf=0.08):
        self.rng = rng
        self.nvars = nvars
        self.past = past
        self.future = future
        self.unb_future = unbounded_future
        self.arith = arith
        self.fancy = fancy_arith
        self.maxb = maxb
        self.iffxor = iffxor
        self.risefall = risefall
        self.prevnext = prevnext
        self.timed = timed
        self.untimed = untimed
        self.raw_leaf = raw_leaf

    def bounds(self):
        r = self.rng
        k = r.random()
        if k < 0.2:
            return (0, r.randint(0, self.maxb))
        if k < 0.4:
            b = r.randint(0, self.maxb)
            return (b, b)
        b = r.randint(0, self.maxb)
        return (b, r.randint(b, self.maxb + 1))

    def term(self, d):
        r = self.rng
        if d <= 0 or not self.arith or r.random() < 0.45:
            if r.random() < 0.7:
                return ('var', r.randrange(self.nvars))
            return ('const', r.randint(0, 4))
        k = r.random()
        if k < 0.18:
            return ('a1', 'abs', self.term(d - 1))
        if k < 0.32:
            return ('a1', 'neg', self.term(d - 1))
        if k < 0.55:
            return ('a2', 'add', self.term(d - 1), self.term(d - 1))
        if k < 0.78:
            return ('a2', 'sub', self.term(d - 1), self.term(d - 1))
        if k < 0.9:
            return ('a2', 'mul', self.term(d - 1), self.term(d - 1))
        if self.fancy:
            j = r.random()
            if j < 0.25:
                return ('a2', 'div', self.term(d - 1), ('const', r.choice([1, 2, 4])))
            if j < 0.4:
                return ('a2', 'pow', self.term(d - 1), ('const', r.choice([0, 1, 2, 3])))
            if j < 0.55:
                return ('a1', 'sqrt', ('a2', 'mul', ('var', 0), ('var', 0)) if r.random() < 0.5 else ('const', r.choice([0, 1, 4, 9, 16])))
            if j < 0.7:
                return ('a1', 'exp', ('a2', 'sub', ('var', 0), ('var', 0)))
            if j < 0.85:
                return ('a1', 'ln', ('const', 1))
            return ('a2', 'log', ('const', 1), ('const', r.choice([2, 3, 10])))
        return ('a2', 'add', self.term(d - 1), self.term(d - 1))

    def pred(self, d):
        r = self.rng
        c = r.choice(['leq', 'lt', 'geq', 'gt', 'geq', 'leq', 'eq', 'neq'])
        return ('pred', c, self.term(min(d, 2)), self.term(min(d, 2)))

    def formula(self, d):
        r = self.rng
        if d <= 0:
            if r.random() < self.raw_leaf:
                return ('var', r.randrange(self.nvars))
            return self.pred(1)
        if r.random() < 0.15:
            return self.pred(d)
        choices = ['not', 'and', 'or', 'implies']
        if self.iffxor:
            choices += ['iff', 'xor']
        if self.risefall:
            choices += ['rise', 'fall']
        if self.past:
            if self.untimed:
                choices += ['once', 'hist', 'since'] * 2
            if self.timed:
                choices += ['oncet', 'histt', 'sincet'] * 3
            if self.prevnext:
                choices += ['prev', 'sprev']
        if self.future:
            if self.unb_future and self.untimed:
                choices += ['ev', 'alw', 'until'] * 2
            if self.timed:
                choices += ['evt', 'alwt', 'untilt'] * 3
            if self.prevnext:
                choices += ['next', 'snext']
        op = r.choice(choices)
        if op in UN:
            return (op, self.formula(d - 1))
        if op in BIN:
            return (op, self.formula(d - 1), self.formula(d - 1))
        b, e = self.bounds()
        if op in TUN:
            return (op, b, e, self.formula(d - 1))
        return (op, b, e, self.formula(d - 1), self.formula(d - 1))


def gen_trace(rng, nvars, n, lo=-4, hi=6):
    return [[rng.randint(lo, hi) for _ in range(n)] for _ in range(nvars)]


def arith_boundary_cases():
    """deterministic cases at the edges of the arithmetic functions (square root of 0, exp beyond the floats in both directions, ln 1, 0 ** 0,
    division of 0): [(formula, columns)], exact in the model"""
    X, Y = ('var', 0), ('var', 1)
    P = lambda t, k=0: ('pred', 'geq', t, ('const', k))
    out = []
    for t, cols in [(('a1', 'sqrt', X), [[0, 1, 4, 0, 9], [1, 1, 1, 1, 1]]), (('a1', 'sqrt', ('a2', 'mul', X, Y)), [[0, 2, 3, 0], [5, 2, 3, 0]]),
                    (('a1', 'exp', X), [[0, 1000, -1000, 710, -746, 0], [0, 0, 0, 0, 0, 0]]), (('a1', 'exp', ('a2', 'mul', X, Y)), [[0, 40, -40, 0], [0, 20, 20, 7]]),
                    (('a1', 'ln', X), [[1, 1, 1], [0, 0, 0]]), (('a2', 'pow', X, Y), [[0, 2, -2, 3, 1], [0, 3, 3, 0, 8]]), (('a2', 'div', X, Y), [[0, 4, -8, 0], [2, 2, -4, -1]]),
                    (('a2', 'log', ('const', 1), Y), [[0, 0, 0], [2, 3, 10]]), (('a1', 'abs', ('a1', 'neg', X)), [[0, -3, 3], [0, 0, 0]])]:
        for f in (P(t), ('once', P(t, 1)), ('hist', ('pred', 'leq', t, ('const', 2))), ('since', P(t), P(Y, 1))):
            out.append((f, cols))
    return out
