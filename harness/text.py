# text.py — rendering formulas as specification text in many spellings, and the
# AST (canonical dump) each text must parse to.
from fractions import Fraction
from decimal import Decimal
from harness import fml

ALIASES = {
    'alw': ['always', 'G'], 'ev': ['eventually', 'F'], 'until': ['until', 'U'], 'unless': ['unless', 'W'],
    'hist': ['historically', 'H'], 'once': ['once', 'O'], 'since': ['since', 'S'], 'next': ['next', 'X'], 'prev': ['prev', 'Y'],
    'snext': ['s_next', 'sX'], 'sprev': ['s_prev', 'sY'], 'not': ['not', '!'], 'and': ['and', '&'], 'or': ['or', '|'],
    'implies': ['implies', '->'], 'iff': ['iff', '<->'], 'xor': ['xor'], 'rise': ['rise'], 'fall': ['fall'],
}
# levels from the generated precedence table (tools/gen_prectable.py reads them from StlParser.py)
BIN_LEVEL = {'mul': 24, 'div': 24, 'add': 23, 'sub': 23, 'pred': 22, 'until': 12, 'untilt': 12, 'unless': 11, 'unlesst': 11,
             'since': 10, 'sincet': 10, 'and': 9, 'or': 8, 'implies': 7, 'iff': 6, 'xor': 5}
PRE_LEVEL = {'neg': 31, 'not': 21, 'alw': 20, 'alwt': 20, 'ev': 19, 'evt': 19, 'hist': 18, 'histt': 18, 'once': 17, 'oncet': 17,
             'prev': 16, 'next': 15, 'sprev': 14, 'snext': 13}
BASE = {'alwt': 'alw', 'evt': 'ev', 'histt': 'hist', 'oncet': 'once', 'untilt': 'until', 'sincet': 'since', 'unlesst': 'unless'}


def load_levels(path='/repo/rtamt/antlr/parser/stl/StlParser.py'):
    """refresh the two tables from the generated parser (same extraction as tools/gen_prectable.py)"""
    import re
    src = open(path).read()
    i = src.index('def expression(self, _p:int=0):')
    parts = re.split(r'localctx = StlParser\.(Expr\w*|Expre\w*)Context\(', src[i:])
    lv = {}
    for k in range(1, len(parts), 2):
        pre = re.search(r'precpred\(self\._ctx, (\d+)\)', parts[k + 1])
        ops = re.findall(r'self\.expression\((\d+)\)', parts[k + 1])
        lv.setdefault(parts[k], (int(pre.group(1)) if pre else None, int(ops[0]) if ops else None))
    b = {'ExprMultDiv': ['mul', 'div'], 'ExprAddSub': ['add', 'sub'], 'ExprPredicate': ['pred'], 'ExprUntil': ['until', 'untilt'],
         'ExprUnless': ['unless', 'unlesst'], 'ExprSince': ['since', 'sincet'], 'ExprAnd': ['and'], 'ExprOr': ['or'], 'ExprImplies': ['implies'],
         'ExprIff': ['iff'], 'ExprXor': ['xor']}
    p = {'ExprNegate': ['neg'], 'ExprNot': ['not'], 'ExprAlways': ['alw', 'alwt'], 'ExprEv': ['ev', 'evt'], 'ExprHist': ['hist', 'histt'],
         'ExpreOnce': ['once', 'oncet'], 'ExprPrevious': ['prev'], 'ExprNext': ['next'], 'ExprStrongPrevious': ['sprev'], 'ExprStrongNext': ['snext']}
    for ctx, names in b.items():
        for nm in names:
            BIN_LEVEL[nm] = lv[ctx][0]
    for ctx, names in p.items():
        for nm in names:
            PRE_LEVEL[nm] = lv[ctx][1]


def kind(f):
    op = f[0]
    if op in ('a1',):
        return ('pre', 'neg') if f[1] == 'neg' else ('fun', f[1])
    if op == 'a2':
        return ('bin', f[1]) if f[1] in ('add', 'sub', 'mul', 'div') else ('fun', f[1])
    if op == 'pred':
        return ('bin', 'pred')
    if op in ('rise', 'fall'):
        return ('fun', op)
    if op in PRE_LEVEL:
        return ('pre', op)
    if op in BIN_LEVEL:
        return ('bin', op)
    return ('atom', op)


UNIT_NS = {'s': 10**9, 'ms': 10**6, 'us': 10**3, 'ns': 1}


def seconds(b, ub, e, ue):
    """the two bounds of an interval as durations in seconds (a missing unit is inherited from the other end, else the default unit s)"""
    ub = ub if ub in UNIT_NS else None
    ue = ue if ue in UNIT_NS else None
    rb = ub or ue or 's'
    re_ = ue or ub or 's'
    conv = lambda v, u: (v * UNIT_NS[u] / Fraction(10**9)) if isinstance(v, Fraction) else v
    return conv(b, rb), conv(e, re_)


class Renderer(object):
    def __init__(self, rng, style='min', aliases=True, seps=True, spaces=True, units=False):
        self.units = units
        self.rng = rng
        self.style = style
        self.aliases = aliases
        self.seps = seps
        self.spaces = spaces

    def kw(self, op):
        base = BASE.get(op, op)
        names = ALIASES.get(base, [fml.KW.get(op, op)])
        return self.rng.choice(names) if self.aliases else names[0]

    def interval(self, b, e):
        sep = self.rng.choice([',', ':']) if self.seps else ','
        if self.units and self.rng.random() < 0.5:
            # equivalent spellings with explicit units (default unit s): both ends, only begin (end inherits), only end (begin inherits)
            k = self.rng.choice(['both', 'both', 'begin', 'end'])
            sp = lambda v, u: '%d%s%s' % (v * (10**9 // UNIT_NS[u]), self.rng.choice(['', ' ']) if self.spaces else '', u)
            ub, ue = self.rng.choice(['s', 'ms', 'us']), self.rng.choice(['s', 'ms', 'us', 'ns'])
            if k == 'both':
                return ['[', sp(b, ub), sep, sp(e, ue), ']']
            if k == 'begin':
                return ['[', sp(b, ub), sep, str(e * (10**9 // UNIT_NS[ub])), ']']
            return ['[', str(b * (10**9 // UNIT_NS[ue])), sep, sp(e, ue), ']']
        return ['[', str(b), sep, str(e), ']']

    def toks(self, f, min_level=0, follow=-1):
        """token list of f in a context that accepts binary operators of level >= min_level and may be followed by an operator of level <= follow"""
        k, name = kind(f)
        op = f[0]
        paren = lambda ts: ['('] + ts + [')']
        extra = self.style == 'extra' and self.rng.random() < 0.25
        if self.style == 'full' and k != 'atom':
            inner = self._node(f, full=True)
            return paren(inner) if (min_level > 0 or follow >= 0) else inner
        if k == 'atom':
            t = [fml.VARS[f[1]]] if op == 'var' else ([f[1]] if op == 'ref' else [fml.num(f[1])])
            return paren(t) if extra else t
        if k == 'fun':
            t = self._node(f)
            return paren(t) if extra else t
        if k == 'bin':
            L = BIN_LEVEL[name if op != 'pred' else 'pred']
            if L < min_level or extra:
                return paren(self._bin(f, L, -1))
            return self._bin(f, L, follow)
        # prefix
        O = PRE_LEVEL[name]
        if follow >= O or extra:
            return paren(self._pre(f, O, -1))
        return self._pre(f, O, follow)

    def _bin(self, f, L, follow):
        op = f[0]
        if op in ('a2', 'pred'):
            l, r = f[2], f[3]
            sym = fml.A2SYM[f[1]] if op == 'a2' else fml.CMP[f[1]]
            mid = [sym]
        elif op in ('untilt', 'sincet', 'unlesst'):
            l, r = f[3], f[4]
            mid = [self.kw(op)] + self.interval(f[1], f[2])
        else:
            l, r = f[1], f[2]
            mid = [self.kw(op)]
        return self.toks(l, L, L) + mid + self.toks(r, L + 1, follow)

    def _pre(self, f, O, follow):
        op = f[0]
        if op == 'a1':
            return ['-'] + self.toks(f[2], O, follow)
        if op in fml.TUN:
            return [self.kw(op)] + self.interval(f[1], f[2]) + self.toks(f[3], O, follow)
        return [self.kw(op)] + self.toks(f[1], O, follow)

    def _node(self, f, full=False):
        k, name = kind(f)
        op = f[0]
        sub = lambda g: self.toks(g, 0, -1) if not full else ['('] + self.toks(g, 0, -1) + [')']
        if k == 'fun':
            if op in ('rise', 'fall'):
                return [op, '('] + self.toks(f[1], 0, -1) + [')']
            if op == 'a1':
                return [f[1], '('] + self.toks(f[2], 0, -1) + [')']
            return [f[1], '('] + self.toks(f[2], 0, -1) + [','] + self.toks(f[3], 0, -1) + [')']
        if k == 'bin':
            if op in ('a2', 'pred'):
                sym = fml.A2SYM[f[1]] if op == 'a2' else fml.CMP[f[1]]
                return sub(f[2]) + [sym] + sub(f[3])
            if op in ('untilt', 'sincet', 'unlesst'):
                return sub(f[3]) + [self.kw(op)] + self.interval(f[1], f[2]) + sub(f[4])
            return sub(f[1]) + [self.kw(op)] + sub(f[2])
        if op == 'a1':
            return ['-'] + sub(f[2])
        if op in fml.TUN:
            return [self.kw(op)] + self.interval(f[1], f[2]) + sub(f[3])
        return [self.kw(op)] + sub(f[1])

    def join(self, toks):
        out = []
        for i, t in enumerate(toks):
            out.append(t)
            if i + 1 < len(toks):
                a, b = t, toks[i + 1]
                need = (a[-1].isalnum() or a[-1] in '_$./') and (b[0].isalnum() or b[0] in '_$./')
                # '<' followed by '-' would lex differently, '-' followed by '>' too, '/' + '/' or '*' is a comment, '=' '=' ...
                need = need or (a + b)[:3] in ('<->',) or (a[-1] + b[0]) in ('->', '//', '/*', '==', '>=', '<=', '!=', '<-', '|-') or (a[-1] == '<' and b[0] == '-') \
                    or (a[-1] in '<>=!' and b[0] == '=') or (a[-1] == '-' and b[0] == '>') or (a[-1] == '!' and b[0] == '=')
                if need or not self.spaces:
                    out.append(' ')
                else:
                    out.append(self.rng.choice(['', ' ', ' ', '  ', '\t', '\n', ' /* c */ ', ' ']))
        return ''.join(out)

    def text(self, f, head=True, semi=True):
        s = self.join(self.toks(f, 0, -1))
        if head:
            s = 'out = ' + s
        if semi:
            s = s + self.rng.choice([';', ' ;', ';\n', '; ', '; // done', ';\n/* end */\n', '; // a; b'])
        else:
            # an omitted final ';' with white space or a comment after the last token
            s = s + self.rng.choice(['', '', ' ', '\n', ' // no semicolon here', ' /* c */', '\n// c\n', ' // a;'])
        return s


# ---- expected AST (the canonical dump the text must parse to) ----
LAB = {'not': 'not', 'and': 'and', 'or': 'or', 'implies': 'implies', 'iff': 'iff', 'xor': 'xor', 'rise': 'rise', 'fall': 'fall',
       'alw': 'always', 'ev': 'eventually', 'hist': 'historically', 'once': 'once', 'prev': 'prev', 'next': 'next', 'sprev': 'sprev', 'snext': 'snext',
       'until': 'until', 'since': 'since', 'alwt': 'always_t', 'evt': 'eventually_t', 'histt': 'historically_t', 'oncet': 'once_t',
       'untilt': 'until_t', 'sincet': 'since_t'}


def expected(f):
    op = f[0]
    if op == 'var':
        return ['var', fml.VARS[f[1]]]
    if op == 'ref':
        return ['var', f[1]]
    if op == 'const':
        return ['const', Fraction(f[1])]
    if op == 'a1':
        return [f[1], expected(f[2])]
    if op == 'a2':
        return [f[1], expected(f[2]), expected(f[3])]
    if op == 'pred':
        return ['pred', f[1], expected(f[2]), expected(f[3])]
    if op == 'unless':
        a, b = expected(f[1]), expected(f[2])
        return ['or', ['always', a], ['until', a, b]]
    if op == 'unlesst':
        a, b = expected(f[3]), expected(f[4])
        return ['or', ['always_t', Fraction(0), '_', Fraction(f[2]), '_', a], ['until_t', Fraction(f[1]), '_', Fraction(f[2]), '_', a, b]]
    if op in fml.UN or op in fml.BIN:
        return [LAB[op]] + [expected(c) for c in f[1:]]
    if op in fml.TUN or op in ('untilt', 'sincet'):
        return [LAB[op], Fraction(f[1]), '_', Fraction(f[2]), '_'] + [expected(c) for c in f[3:]]
    raise ValueError(op)


def parse_dump(s):
    """'(a (b c) d)' -> nested lists; numeric atoms after const / in bound positions become Fractions"""
    toks = s.replace('(', ' ( ').replace(')', ' ) ').split()
    pos = [0]

    def item():
        t = toks[pos[0]]
        pos[0] += 1
        if t == '(':
            out = []
            while toks[pos[0]] != ')':
                out.append(item())
            pos[0] += 1
            return out
        return t
    tree = item()

    def canon(x):
        if not isinstance(x, list):
            return x
        if x[0] == 'const':
            v = num(x[1])
            return ['const', Fraction(float(v)) if isinstance(v, Fraction) else v]     # constants are Python floats in rtamt
        if x[0].endswith('_t'):
            b, e = seconds(num(x[1]), x[2], num(x[3]), x[4])
            return [x[0], b, '_', e, '_'] + [canon(y) for y in x[5:]]
        return [x[0]] + [canon(y) for y in x[1:]]
    return canon(tree)


def num(t):
    try:
        return Fraction(t)
    except Exception:
        try:
            return Fraction(Decimal(t))
        except Exception:
            return t
