# c14.py — C14: parse() accepts exactly the specification language and fails
# only with RTAMTException.
import json
from harness import fml, text
from harness.common import parse_fields
from harness.runner import Check, need_vars
from harness.c15 import add_unless, hexs

OUT_OF_FRAGMENT = ['input', 'output', 'const', 'float', 'int', 'long', 'complex', 'real', 'bool', 'internal', 'topic', 'import', 'from',
                   'specification', 'assertion', '@', 'true', 'false', 'TRUE', 'FALSE', 'ps', '{', '}']
SOUP = ['xa', 'xb', 'zz', 'k1', '0', '1', '12', '1.5', '.5', '2.', '1e3', '3E-2', '(', ')', '[', ']', ',', ':', ';', '=', '-', '+', '*', '/',
        '<=', '>=', '<', '>', '==', '!==', 'not', '!', 'and', '&', 'or', '|', 'implies', '->', 'iff', '<->', 'xor', 'always', 'G', 'eventually', 'F',
        'historically', 'H', 'once', 'O', 'until', 'U', 'unless', 'W', 'since', 'S', 'next', 'X', 'prev', 'Y', 's_next', 'sX', 's_prev', 'sY',
        'rise', 'fall', 'abs', 'sqrt', 'exp', 'pow', 'log', 'ln', 's', 'ms', 'us', 'ns', '.', 'out']
ILLEGAL = ['#', '~', '%', '^', '`', '"', "'", '\\', '?', 'é', '€', '\x01']
WEIRD_LIT = ['0x1F', '0b101', '0XAB', '0B11']


class C14(Check):
    PID = 'C14'
    SHRINK = False
    RULE = ('three streams: (1) mostly-valid specification texts from the renderer (all spellings, intervals with units / constants / begin > end / undeclared '
            'bound constants, undeclared identifiers, several assertions; bounds replaced by identifiers naming a constant, a signal, the specification itself or nothing); (2) token soup: valid texts with tokens deleted, duplicated, swapped, inserted, '
            'truncated, and random token sequences; (3) declarations (const / variable declarations with every literal form, judged by outcome class only: never an exception other than RTAMTException); (4) character pollution: illegal characters, hex/binary literals, unterminated comments, comments and Unicode white space after the last token, empty text; (5) hostile texts and configurations judged by outcome class only (long flat formulas of 150-1200 operands, absurd bounds, identifiers ending in a dot, imported types that are not classes, default units and constant values set through the API: unknown units, hex / non-numeric / negative / float / non-string values); '
            '(6) whole specification texts (header, imports from the modules of harness/pdmods, typed input / output variable declarations with initialisers, constant declarations, topic annotations, assertions) and token-level mutations of them: outcome class, specification name, modules, variables, type / io / constant / topic tables, free variables, output variable and every AST against the model ParserDecl.file_outcome; each parse under a wall-clock limit; outcome class (ok / RTAMTException / other exception / timeout) and, when accepted, the AST are compared with '
            'the model lexer+parser+visitor checks (Lexer.v, Parser.v, Elab.v); non-trivial = text with >= 5 tokens; distinct by text')

    def gen_cases(self, rng, tier):
        text.load_levels()
        cases = []
        nvalid = 120 if tier == 'quick' else 2000
        P = ('pred', 'geq', ('var', 0), ('const', 1))
        fixed = ['', ';', 'out = ', 'out = xa >= 1', 'xa >= 1;', 'out = zz >= 1;', 'out = once[3,1] (xa >= 1);', 'out = once[1,3] (xa >= 1);',
                 'out = once[0,k1] (xa>=1);', 'out = once[0,k9] (xa>=1);', 'out = once[1 s, 500 ms] (xa >= 1);', 'out = once[500ms,1s] (xa >= 1);',
                 'out = xa # >= 1;', 'out = xa >= 0x1F;', 'out = xa >= 0b101;', 'out = xa >= 1 /* unterminated', 'out = xa >= 1; // comment',
                 'out = xa >= 1;;', 'out = xa >= 1; garbage', 'out = (xa >= 1;', 'out = xa >= 1);', 'a = xa >= 1; out = a and a;', 'a = xa >= 1; out = b and a;',
                 'out = always[0:1] xa unless[1,2] xb;', 'out = xa unless xb;', 'out = xa unless[2,1] xb;', 'out = pow(xa, 2) >= log(xb, 2);', 'out = pow(xa) >= 1;',
                 'out = xa >= 1 out = xb;', 'out = = xa;', 'out == xa;', 'out = a/b >= 1;', 'out = xa/xb >= 1;', 'out = xa / xb >= 1;', 'out = xa//xb >= 1;',
                 'out = xa.f >= 1;', 'out = 1 >= .5e1;', 'out = always [0,1] [0,1] xa;', 'out = always[0,1 xa;', 'out = always[0;1] xa;', 'out = always[-1,1] xa;',
                 'out = G[0,1] F[0:2] xa -> H O xb;', 'out = always[500ms:2] xa;', 'out = once[3ms:1] xa;', 'out = always[1s:500] xa;', 'out = always[2:500ms] xa;', 'out = always[1:2000ms] xa;',
                 'out = xa since[700us:5] xb;', 'out = xa unless[1000ms:3000ms] xb;', 'out = xa until[1:3s] xb;', 'out = next[0,1] xa;', 'out = not[0,1] xa;', 'out = xa and[0,1] xb;', 'out = xa S[0,1] xb U[1,1] xa W[0,2] xb;',
                 # interval bounds that are identifiers: a declared constant, an unknown name, the name of a signal (declared, or implicitly declared by the operand)
                 'out = always[0:k1] (xa>=1);', 'out = always[0:xb] (xa>=1);', 'out = once[xa:5] (xa>=1);', 'out = (xa>=0) until[0:w] (w>=1);', 'out = eventually[xa ms:5 ms] (xa>=1);',
                 'out = once[k1:k1] xa;', 'out = once[k1 s:3 s] xa;', 'out = once[out:3] xa;', 'a = xa >= 1; out = once[0:a] a;', 'out = historically[zz:zz] zz;',
                 'const int c1 = 0x2\nout = once[0:c1] xa;', 'const int c1 = 0x2\nout = xa >= c1;', 'const int c1 = 0b11\nout = xa >= c1;', 'const int c1 = 2\nout = once[0:c1] xa;']
        fixed += [
            # comments / white space after the last token, with and without the final ';' (repair D53)
            'out = xa >= 1 // note', 'out = xa >= 1 // note;', 'out = xa >= 1 /* c */', 'out = xa >= 1; /* c */', 'xa >= 1\n// c\n', 'out = xa >= 1; // a;\n// b',
            'out = xa >= 1 /* c */ ;', 'out = xa >= 1 //', 'out = always[0,1] (xa >= 1) /* ; */',
            # characters str.rstrip() removes but the lexer does not know
            'out = xa >= 1\x0b', 'out = xa >= 1;\x1c', 'out = xa >= 1\x85', 'out = xa >= 1;\xa0', 'out = xa >= 1\u2028', 'out = xa >= 1;\u3000', 'out = xa >= 1\x1f;',
            # negative bounds through a declared constant (kn = -1)
            'out = always[kn,0] (xa >= 1);', 'out = once[kn:k1] xa;', 'out = once[kn:kn] xa;', 'out = xa since[kn,1] xb;', 'out = xa >= kn;',
            # an identifier that ends with a dot
            'out = x. > 1;', 'out = xa. >= 1;', 'out = once[0,1] (zz. >= xa.);',
            # real literals with consecutive underscores
            'out = xa > 1__0.5;', 'out = xa > 1__0e2;', 'out = xa > 1__0;', 'out = once[0,1__0.5] xa;',
            # absurd bounds
            'out = always[0,1e4300] (xa>1);', 'out = always[0,1e99999999] (xa>1);', 'out = once[1e-99999999,1] xa;', 'out = always[0,' + '9' * 4301 + '] xa;', 'out = xa >= 1e99999999;',
            # imported types that do not exist / are not classes
            'from os import foo\nfoo p\nout = p > 1', 'from os import path\npath p\nout = p > 1', 'from math import pi\npi p\nout = p > 1', 'from sys import exit\nexit p\nout = p > 1',
            'from nowhere import foo\nfoo p\nout = p > 1',
            # hexadecimal / binary literals beyond the largest float or the int-to-text limit, annotations that name a constant, imports that misbehave
            'out = xa > 0x1' + '0' * 256 + ';', 'out = xa > 0b1' + '0' * 1024 + ';', 'const float c1 = 0x1' + '0' * 3700 + '\nout = xa > c1', 'out = once[0,0x1' + '0' * 3700 + '] xa;',
            'const float c1 = 1\n@topic(c1, t)\nout = xa', '@topic(k1, t)\nout = xa', '@topic(zz, t)\nout = xa', 'from harness.badmod_exit import T\nT p\nout = p > 1', 'from harness.badmod_raise import T\nT p\nout = p > 1',
            'from builtins import super\nsuper v\nout = v > 1', 'from builtins import print\nprint v\nout = v > 1', 'from builtins import open\nopen v\nout = v > 1',
        ]
        for t in fixed:
            cases.append({'text': t, 'stream': 'fixed'})
        # long flat formulas: the parser and the visitors recurse once per operand
        for n in (150, 400, 1200):
            cases.append({'text': 'out = ' + ' and '.join('(xa > %d)' % k for k in range(n)) + ';', 'stream': 'long'})
            cases.append({'text': 'out = ' + ' + '.join(['xa'] * n) + ' >= 1;', 'stream': 'long'})
            cases.append({'text': 'out = ' + 'not ' * n + '(xa >= 1);', 'stream': 'long'})
            cases.append({'text': 'out = ' + '(' * n + 'xa' + ')' * n + ' >= 1;', 'stream': 'long'})
        # configuration through the API: default unit, constants
        for u in ['sec', 'ps', 'm', '', 'S', 'ms ', 'ms', 'us', 'ns', 's']:
            for t in ['out = always[0,1] (xa >= 1);', 'out = xa >= 1;', 'out = once[1ms:1s] xa;']:
                cases.append({'text': t, 'stream': 'api', 'unit': u})
        for v in ['0x10', '0b11', '1_0', 'abc', 'inf', '-inf', 'nan', '', ' 2 ', '1e400', '-1', '2.5', 3, 0.3, -2, True, None, [1], '1__0.5', '1e5000', '2 s']:
            for t in ['out = xa >= c9;', 'out = always[0,c9] (xa >= 1);', 'out = once[c9:c9] xa;']:
                cases.append({'text': t, 'stream': 'api', 'consts': [['c9', rng.choice(['int', 'float']), v]]})
        valid = []
        for i in range(nvalid):
            nv = rng.choice([1, 2])
            g = fml.Gen(rng, nvars=nv, maxb=2, fancy_arith=(rng.random() < 0.3), raw_leaf=0.05)
            f = add_unless(rng, g.formula(rng.choice([1, 2, 3, 3])))
            if fml.size(f) > 25:
                continue
            r = text.Renderer(rng, style=rng.choice(['min', 'full', 'extra']), units=(rng.random() < 0.4))
            t = r.text(f, head=rng.random() < 0.8, semi=rng.random() < 0.8)
            valid.append(r.toks(f))
            cases.append({'text': t, 'stream': 'valid'})
        for toks in valid:
            toks = list(toks)
            k = rng.random()
            if not toks:
                continue
            i = rng.randrange(len(toks))
            if k < 0.2:
                del toks[i]
            elif k < 0.4:
                toks.insert(i, toks[i])
            elif k < 0.55:
                j = rng.randrange(len(toks))
                toks[i], toks[j] = toks[j], toks[i]
            elif k < 0.75:
                toks.insert(i, rng.choice(SOUP))
            elif k < 0.85:
                toks = toks[:i]
            else:
                toks[i] = rng.choice(SOUP)
            cases.append({'text': 'out = ' + ' '.join(toks) + ';', 'stream': 'soup'})
        # a bound replaced by an identifier (constant / signal / sub-specification / unknown name)
        import re
        for toks in valid:
            t = 'out = ' + ' '.join(toks) + ';'
            nums = [m for m in re.finditer(r'(?<=[\[,:])\s*[0-9.]+', t)]
            if nums and rng.random() < 0.6:
                m = rng.choice(nums)
                t = t[:m.start()] + ' ' + rng.choice(['k1', 'k1', 'xa', 'xb', 'zz', 'out']) + t[m.end():]
                cases.append({'text': t, 'stream': 'bound-ident'})
        # declarations in the text (outside the modelled fragment: only the outcome class 'never another exception type' is judged)
        lits = ['2', '0x2', '0X1f', '0b11', '0B1', '1_0', '1.5', '1e3', '2.', '.5', '3E-2', '0', '00', '017', '1e400', '2 s', 'xa', 'k1', '-2', '(2)']
        types = ['int', 'float', 'int', 'float', 'long', 'complex', 'real', 'bool', 'uint8']
        for i in range(nvalid // 2):
            nm = rng.choice(['c1', 'c1', 'c2', 'xa', 'k1', 'out'])
            decl = 'const %s %s = %s' % (rng.choice(types), nm, rng.choice(lits)) + rng.choice(['', '', ';', '\n'])
            if rng.random() < 0.2:
                decl += '\nconst %s %s = %s' % (rng.choice(types), rng.choice(['c1', 'c2']), rng.choice(lits))
            if rng.random() < 0.3:
                decl = rng.choice(['input ', 'output ', '']) + rng.choice(types) + ' ' + rng.choice(['xa', 'xb', 'w']) + rng.choice(['', ';']) + '\n' + decl
            use = rng.choice(['out = once[0:%s] (xa >= 1);', 'out = xa >= %s;', 'out = always[%s:%s] xa;', 'out = (xa + %s >= 0) since[%s:5] xb;', 'out = %s;'])
            cases.append({'text': decl + '\n' + (use.replace('%s', nm)), 'stream': 'decl'})
        for i in range(nvalid // 3):
            toks = [rng.choice(SOUP) for _ in range(rng.randint(1, 12))]
            cases.append({'text': ' '.join(toks), 'stream': 'soup'})
        for toks in valid[: nvalid // 2]:
            t = 'out = ' + ' '.join(toks) + ';'
            k = rng.random()
            pos = rng.randrange(len(t) + 1)
            if k < 0.6:
                t = t[:pos] + rng.choice(ILLEGAL) + t[pos:]
            elif k < 0.8:
                t = t.replace(' 1 ', ' ' + rng.choice(WEIRD_LIT) + ' ', 1) if ' 1 ' in t else t + ' ' + rng.choice(WEIRD_LIT)
            elif k < 0.9:
                t = t[:pos] + '/*' + t[pos:]
            else:
                t = t[:pos] + ' // c\n' + t[pos:]
            cases.append({'text': t, 'stream': 'pollution'})
        # whole specification texts: header, imports, variable / constant declarations, annotations, assertions, and mutations of them
        # (generator of harness/declgen.py); outcome class, every table the visitors fill and every AST against ParserDecl.file_outcome
        from harness import declgen
        for t in declgen.FIXED:
            cases.append({'text': t, 'stream': 'file'})
        for _ in range(nvalid):
            g = declgen.Gen(rng)
            segs = g.spec()
            cases.append({'text': declgen.render(rng, segs), 'stream': 'file'})
            for _ in range(2):
                k, t = declgen.mutate(rng, segs)
                cases.append({'text': t, 'stream': 'file'})
        cases = [c for c in cases if '\x00' not in c['text']]
        return cases

    def model_lines(self, c):
        if c['stream'] == 'file':
            from harness import declgen
            if declgen.out_of_fragment(c['text']):
                return ['(parsefile %s)' % hexs('out = xa')]
            return ['(parsefile %s)' % hexs(c['text'])]
        if self.out_of_fragment(c):
            return ['(parse stl s ((k1 2)) %s)' % hexs('out = xa;')]      # judged by outcome class only: the model is not asked
        return ['(parse stl s ((k1 2) (kn -1)) %s)' % hexs(c['text'])]

    def impl_cases(self, c):
        if c['stream'] == 'file':
            return [{'monitor': 'discrete-offline', 'vars': [], 'spec': c['text'], 'calls': [['tables']]}]
        case = {'monitor': 'discrete-offline', 'vars': ['xa', 'xb', 'xc'], 'consts': [['k1', 'float', '2'], ['kn', 'float', '-1']] + c.get('consts', []), 'spec': c['text'], 'calls': [['ast']]}
        if 'unit' in c:
            case['unit'] = c['unit']
        return [case]

    def out_of_fragment(self, c):
        import re
        words = set(re.findall(r'[A-Za-z_$][A-Za-z0-9_$./]*|[@{}]', c['text']))
        if c['stream'] in ('api', 'long') or re.search(r'[eE][+-]?[0-9]{3,}', c['text']) or re.search(r'[0-9]{40,}', c['text']) or re.search(r'(?<![A-Za-z_$./])[0-9.]+_', c['text']) or re.search(r'[A-Za-z_$][A-Za-z0-9_$/]*\.(?![A-Za-z0-9_$./])', c['text']):
            return True
        return bool(words & set(OUT_OF_FRAGMENT)) or bool(re.search(r'0[xXbB][0-9a-fA-F]', c['text'])) or bool(re.search(r'(?<![0-9.])0[0-9]', c['text'])) or '_' in re.sub(r'[A-Za-z_$][A-Za-z0-9_$./]*', '', c['text']) \
            or bool(re.search(r'[A-Za-z_$][A-Za-z0-9_$./]*\.[A-Za-z]', c['text']))

    def judge_file(self, c, mlines, ires):
        from harness import declgen
        ml = mlines[0]
        i = ires[0]
        st = i['setup']
        det = {'text': c['text'], 'stream': 'file'}
        if not ml.startswith('FILE '):
            return 'model-error', ml
        kind = 'CRASH' if st['status'] == 'crash' else ('RTAMT' if st['status'] == 'rtamt' else 'OK')
        if declgen.out_of_fragment(c['text']):
            return 'dropped', None
        mk, mv = declgen.parse_model(ml[5:])
        if kind != mk:
            if kind == 'CRASH' and mk != 'CRASH':
                return 'violation', dict(det, expected='parse() returns or raises RTAMTException', observed=st)
            # rtamt accepts what the model rejects: an accepted text that is not derivable; rtamt rejects what the model accepts: allowed by the
            # property (it constrains accepted texts only), but the model no longer describes the code
            return ('violation' if kind == 'OK' else 'model-differs'), dict(det, expected={'source': 'ParserDecl.file_outcome', 'outcome': mk}, observed=st if kind != 'OK' else 'accepted')
        if kind == 'CRASH':
            return 'ok', None        # an import / a constructor that escapes the except clauses, as the oracle says (not benign: see C14_file_clean)
        if kind == 'OK':
            a = i['calls'][0]
            if a['status'] != 'ok':
                return 'violation', dict(det, expected='tables available after a successful parse()', observed=a)
            v = a['value']
            got = {'name': v['name'], 'mods': [tuple(x) for x in v['mods']], 'vars': v['vars'], 'types': [tuple(x) for x in v['types']], 'io': [tuple(x) for x in v['io']],
                   'consts': [tuple(x) for x in v['consts']], 'topics': [tuple(x) for x in v['topics']], 'free': v['free'], 'out': (v['out'][0], v['out'][1]),
                   'asts': [declgen.canon_dump(x, False) for x in v['asts']]}
            mv = dict(mv)
            mv['io'] = [x for x in mv['io']]
            for k in ('name', 'mods', 'vars', 'types', 'consts', 'topics', 'free', 'out', 'asts'):
                if got[k] != mv[k]:
                    # the ASTs and the constant table are what the property speaks about; the other tables are the tie between ParserDecl and the code
                    return ('violation' if k in ('asts', 'consts') else 'model-differs'), dict(det, table=k, expected={'source': 'ParserDecl.elab_file', k: mv[k]}, observed={k: got[k]})
            if dict(got['io']) != dict(mv['io']) and {k_: v_ for k_, v_ in got['io'] if k_ in dict(mv['io'])} != dict(mv['io']):
                return 'model-differs', dict(det, table='io', expected={'source': 'ParserDecl.elab_file', 'io': mv['io']}, observed={'io': got['io']})
        return 'ok', None

    def judge(self, c, mlines, ires):
        if c['stream'] == 'file':
            return self.judge_file(c, mlines, ires)
        ml = mlines[0]
        i = ires[0]
        det = {'text': c['text'], 'stream': c['stream'], 'model': ml[:300]}
        st = i['setup']
        if st['status'] == 'crash':
            return 'violation', dict(det, expected='parse() returns or raises RTAMTException', observed=st)
        if self.out_of_fragment(c):
            if c['stream'] in ('api', 'long', 'fixed'):
                return 'ok', None               # outcome class only: parse() returned or raised RTAMTException
            return 'dropped', None
        if ml.startswith('ERROR'):
            return 'model-error', ml
        model_ok = ml.startswith('OK ')
        if st['status'] == 'ok':
            a = i['calls'][0]
            if a['status'] != 'ok':
                return 'violation', dict(det, expected='AST available after a successful parse()', observed=a)
            if not model_ok:
                return 'violation', dict(det, expected='RTAMTException: the text is not derivable from the grammar / fails a visitor check (model: Lexer.v, Parser.v, Elab.v)', observed={'accepted as': a['value']})
            m = [text.parse_dump(x) for x in ml[3:].split(' ; ')]
            im = [text.parse_dump(x) for x in a['value']]
            if m != im:
                return 'violation', dict(det, expected={'model AST': ml[3:]}, observed={'AST': a['value']})
            return 'ok', None
        # implementation raised RTAMTException
        if model_ok:
            if 'nested too deeply' in st.get('msg', ''):
                return 'ok', None          # derivable but beyond the recursion limit of the parser: rejected cleanly (see DESIGN)
            if 'Ambiguity ERROR' in st.get('msg', ''):
                c['_ambig'] = True
                return 'ok', None          # derivable but rejected by the ambiguity listener: allowed by C14 (see DESIGN)
            return 'violation', dict(det, expected={'accepted with AST': ml[3:]}, observed=st, note='a derivable text is rejected')
        return 'ok', None

    def nontrivial(self, c):
        return len(c['text'].split()) >= 5

    def features(self, c):
        return [c['stream']]

    def key(self, c):
        return c['text']

    def describe(self, c):
        return {'text': c['text'], 'stream': c['stream']}

    def signature(self, c, detail):
        obs = detail.get('observed') if isinstance(detail, dict) else None
        return {'stream': c['stream'], 'kind': obs.get('kind') if isinstance(obs, dict) else None, 'status': obs.get('status') if isinstance(obs, dict) else None,
                'text': c['text'][:40]}


def main(tier, seed, replay=None):
    return C14().main(tier, seed, replay)
