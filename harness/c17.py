# c17.py — C17: well-formed use never crashes; unsupported constructs are
# rejected with RTAMTException no later than the first evaluation.
import json
from harness import fml
from harness.common import parse_fields
from harness.runner import Check, need_vars

KINDS = ['discrete-offline', 'discrete-online', 'dense-offline', 'dense-online']


def dense_samples(col, times):
    return [[float(t), float(v)] for t, v in zip(times, col)]


class C17(Check):
    PID = 'C17'
    RULE = ('every operator x the four monitor kinds (with pastify for bounded-future formulas online) x degenerate data shapes: one-sample traces, a declared '
            'and supplied but unused variable, a declared but never supplied unused variable, inputs listed in shuffled order, object-typed variables read and written through fields (also two fields of one object) with several update() calls, bounds of 1e19 ... 1e400 (a value or an RTAMTException), dense online update() calls that leave a variable out (the first call of a new object, and the first call after an update and a reset()); then seeded random formulas of '
            'the full grammar; 30% of the cases with one of the four IA-STL semantics and a random input/output assignment; expected outcome class from the model (Support.v): Ok for supported constructs, RTAMTException (at parse/pastify or at the '
            'first evaluation) for unsupported ones, never another exception and never a value for an unsupported construct; '
            'non-trivial = formula with a temporal operator; distinct by (formula, monitor kind, data shape)')

    def gen_cases(self, rng, tier):
        P = ('pred', 'geq', ('var', 0), ('const', 1))
        Q = ('pred', 'leq', ('var', 1), ('const', 2))
        ops = []
        for op in ('not', 'rise', 'fall', 'prev', 'sprev', 'next', 'snext', 'once', 'hist', 'ev', 'alw'):
            ops.append((op, P))
        for op in ('and', 'or', 'implies', 'iff', 'xor', 'since', 'until'):
            ops.append((op, P, Q))
        for op in ('oncet', 'histt', 'evt', 'alwt'):
            ops.append((op, 0, 1, P))
            ops.append((op, 1, 2, P))
        for op in ('sincet', 'untilt'):
            ops.append((op, 0, 1, P, Q))
            ops.append((op, 1, 2, P, Q))
        for o in ('abs', 'neg'):
            ops.append(('pred', 'geq', ('a1', o, ('var', 0)), ('const', 1)))
        for o in ('add', 'sub', 'mul'):
            ops.append(('pred', 'geq', ('a2', o, ('var', 0), ('var', 1)), ('const', 1)))
        ops += [P, ('pred', 'eq', ('var', 0), ('var', 1)), ('and', ('evt', 0, 1, P), ('once', Q)), ('not', ('untilt', 0, 2, P, Q)),
                ('and', ('next', P), Q), ('implies', P, ('alwt', 0, 2, ('evt', 0, 1, Q)))]
        items = []
        for f in ops:
            for shape in ('plain', 'one-sample', 'unused-supplied', 'unused-missing', 'shuffled'):
                for kind in KINDS:
                    items.append((f, 2, shape, kind))
        nrand = 150 if tier == 'quick' else 3000
        for i in range(nrand):
            nv = rng.choice([1, 2, 3])
            g = fml.Gen(rng, nvars=nv, maxb=2, fancy_arith=False)
            f = g.formula(rng.choice([1, 2, 3, 4]))
            if fml.size(f) > 30:
                continue
            items.append((f, nv, rng.choice(['plain', 'one-sample', 'unused-supplied', 'unused-missing', 'shuffled']), rng.choice(KINDS)))
        cases = []
        for (f, nv, shape, kind) in items:
            if not fml.fvars(f):
                continue            # every data set supplies at least one used variable
            nv = need_vars(f, nv)
            n = 1 if shape == 'one-sample' else rng.choice([2, 3, 5, 8])
            c = {'f': f, 'n': n, 'nv': nv, 'cols': fml.gen_trace(rng, nv + 1, n), 'times': list(range(n)), 'shape': shape, 'kind': kind,
                 'perm': rng.random()}
            if rng.random() < 0.3:
                # the same monitor kind built with one of the four IA-STL semantics: what is supported does not depend on the semantics
                c['sem'] = rng.choice(['output-robustness', 'input-robustness', 'output-vacuity', 'input-vacuity'])
                c['io'] = [rng.randrange(2) for _ in range(nv + 1)]
            cases.append(c)
        # next / s_next under pastify() for every semantics of the dense-time online monitor
        P1 = ('pred', 'geq', ('var', 0), ('const', 1))
        for sem in ('standard', 'output-robustness', 'input-robustness', 'output-vacuity', 'input-vacuity'):
            for f in (('next', P1), ('evt', 0, 1, ('snext', P1)), ('and', ('next', P1), ('once', P1))):
                c = {'f': f, 'n': 3, 'nv': 1, 'cols': fml.gen_trace(rng, 2, 3), 'times': [0, 1, 2], 'shape': 'plain', 'kind': 'dense-online', 'perm': 0.5}
                if sem != 'standard':
                    c['sem'], c['io'] = sem, [1, 0]
                cases.append(c)
        # object-typed variables read and written through fields (out.value = ... xa.value ...), several updates online
        import re
        for f in [('oncet', 0, 1, P), ('and', P, Q), ('hist', ('or', P, Q)), ('pred', 'geq', ('a2', 'add', ('var', 0), ('var', 1)), ('const', 1)), ('since', P, Q), ('evt', 0, 1, P)]:
            for kind in KINDS:
                n = rng.choice([3, 4, 6])
                cases.append({'f': f, 'n': n, 'nv': 2, 'cols': fml.gen_trace(rng, 3, n), 'times': list(range(n)), 'shape': 'object-fields', 'kind': kind, 'perm': 0.5})
        # nested fields, read and written (out.inner.v = ... xa.inner.v ...)
        for f in [P, ('once', P), ('oncet', 0, 1, P)]:
            for kind in KINDS:
                n = rng.choice([3, 4])
                cases.append({'f': f, 'n': n, 'nv': 1, 'cols': fml.gen_trace(rng, 2, n), 'times': list(range(n)), 'shape': 'object-fields-nested', 'kind': kind, 'perm': 0.5})
        # an earlier assertion reads a field of the object that a later assertion writes to (sb = xa.other ...; xa.value = ...; out = sb)
        for f in [P, ('once', P), ('histt', 0, 1, P)]:
            for kind in KINDS:
                n = rng.choice([3, 4])
                cases.append({'f': f, 'n': n, 'nv': 2, 'cols': fml.gen_trace(rng, 3, n), 'times': list(range(n)), 'shape': 'object-fields-other', 'kind': kind, 'perm': 0.5})
        # the result is written to one field of the object whose other field the formula reads (xa.other = ... xa.value ...)
        for f in [P, ('oncet', 0, 1, P), ('hist', P), ('alwt', 0, 1, P)]:
            for kind in KINDS:
                n = rng.choice([3, 4])
                cases.append({'f': f, 'n': n, 'nv': 1, 'cols': fml.gen_trace(rng, 2, n), 'times': list(range(n)), 'shape': 'object-fields-same', 'kind': kind, 'perm': 0.5})
        # bounds far beyond anything a monitor can hold (2**63 sampling periods, the largest float): a value or an RTAMTException, never another exception
        for txt in ['once[0,1e19](xa >= 1)', 'historically[0,1e30](xa >= 1)', '(xa >= 1) since[0,1e19] (xa <= 3)', 'once[1e25,1e25](xa >= 1)', 'once[0,1e400](xa >= 1)', 'always[0,1e19](xa >= 1)',
                    'eventually[0,1e400](xa >= 1)', 'once[0,1e300](xa >= 1)']:
            for kind in KINDS:
                cases.append({'f': P, 'n': 3, 'nv': 1, 'cols': fml.gen_trace(rng, 2, 3), 'times': [0, 1, 2], 'shape': 'huge-bound', 'kind': kind, 'perm': 0.5, 'text': txt})
        # finite samples whose exponential / power is beyond the largest float
        for full in ['out = exp(xa) > 1', 'out = pow(xa, 200) > 1', 'out = once(exp(xa) >= 2)', 'out = pow(2, xa) <= 5']:
            for kind in KINDS:
                cases.append({'f': P, 'n': 3, 'nv': 1, 'cols': [[1000, 0, 800], [0, 0, 0]], 'times': [0, 1, 2], 'shape': 'big-values', 'kind': kind, 'perm': 0.5, 'text': full, 'full': 1})
        # flat sums / chains of negations of 24-40 terms: the operators are built, reset and pastified by walks over the syntax tree
        for full in ['out = ' + ' + '.join(['xa'] * 24) + ' >= 1', 'out = ' + ' + '.join(['xa'] * 40) + ' >= 1', 'out = ' + 'not ' * 30 + '(xa >= 1)',
                     'out = once[0,1](' + ' + '.join(['xa'] * 30) + ' >= 1)']:
            for kind in KINDS:
                cases.append({'f': P, 'n': 3, 'nv': 1, 'cols': [[1, 0, 2], [0, 0, 0]], 'times': [0, 1, 2], 'shape': 'big-values', 'kind': kind, 'perm': 0.5, 'text': full, 'full': 1})
        # sampling periods that are decimal floats (0.1 s is not a binary fraction): next / bounded future operators, pastified online, offline
        for full in ['out = (xa >= 1) implies next(xa >= 0)', 'out = next(next(xa >= 1))', 'out = eventually[0,0.2](xa >= 1)', 'out = always[0.1,0.3](xa >= 1) or next(xa >= 2)',
                     'out = (xa >= 1) until[0.1,0.2] (xa >= 2)', 'out = once[0,0.3](xa >= 1) and next(xa >= 0)']:
            for per in ([0.1, 's', 0.1], [100, 'ms', 0.1], [0.0001, 'ks' if False else 's', 0.1]):
                if per[0] == 0.0001:
                    continue
                for kind in ('discrete-offline', 'discrete-online'):
                    cases.append({'f': P, 'n': 4, 'nv': 1, 'cols': [[1, 0, 2, 3], [0, 0, 0, 0]], 'times': [0, 1, 2, 3], 'shape': 'big-values', 'kind': kind, 'perm': 0.5, 'text': full, 'full': 1, 'period': per})
        # the first update() of a dense-time online monitor leaves a variable out (allowed in every later update, and the same as passing an empty list)
        for txt in ['(xa >= 0) and (xb >= 0)', 'once[0,1](xa >= 1) or (xb <= 2)', '(xa >= 1) since (xb >= 1)', 'xa + xb >= 1']:
            cases.append({'f': P, 'n': 3, 'nv': 2, 'cols': [[1, 0, 2], [0, 1, 3]], 'times': [0, 1, 2], 'shape': 'first-update-omits', 'kind': 'dense-online', 'perm': 0.5, 'text': txt})
            # ... the same after the object has been used and reset (seeded change C17_A5: what the first update() does once only)
            cases.append({'f': P, 'n': 3, 'nv': 2, 'cols': [[1, 0, 2], [0, 1, 3]], 'times': [0, 1, 2], 'shape': 'update-after-reset-omits', 'kind': 'dense-online', 'perm': 0.5, 'text': txt})
        # a sampling period that is zero or negative
        # ... or not a finite number (inf, a bool), or a tolerance that is not a number
        for per in ([0, 's', 0.1], [-1, 's', 0.1], [0.0, 'ms', 0.1], [float('inf'), 's', 0.1], [True, 's', 0.1], [1, 's', float('nan')], [float('nan'), 's', 0.1]):
            for kind in ('discrete-offline', 'discrete-online'):
                cases.append({'f': P, 'n': 3, 'nv': 1, 'cols': fml.gen_trace(rng, 2, 3), 'times': [0, 1, 2], 'shape': 'huge-bound', 'kind': kind, 'perm': 0.5, 'text': 'once[0,2](xa >= 1)', 'period': per})
        # assertion heads that end with a dot (one Identifier token): declared under one name, looked up under another
        for full in ['a. = (xa >= 1)', 'xb. = once(xa >= 1)']:
            for kind in KINDS:
                cases.append({'f': P, 'n': 3, 'nv': 1, 'cols': fml.gen_trace(rng, 2, 3), 'times': [0, 1, 2], 'shape': 'huge-bound', 'kind': kind, 'perm': 0.5, 'text': full, 'full': 1})
        return cases

    def normalize(self, c):
        c = dict(c)
        if not fml.fvars(c['f']):
            c['f'] = ('pred', 'geq', ('var', 0), c['f']) if c['f'][0] == 'const' else c['f']
        c['n'] = len(c['cols'][0])
        c['times'] = list(range(c['n']))
        return c

    def model_lines(self, c):
        return ['(supp stl %s)' % fml.to_sx(c['f'])]

    def impl_cases(self, c):
        f, n, kind, shape = c['f'], c['n'], c['kind'], c['shape']
        used = fml.fvars(f)
        declared = list(range(c['nv']))
        extra = c['nv']                      # index of the surplus variable
        names = fml.VARS + ['xe']
        vars_ = [names[i] for i in declared]
        supply = list(used)
        if shape == 'object-fields-other':
            supply = list(declared)         # the specification reads xb too
        if shape in ('unused-supplied', 'unused-missing'):
            vars_ = vars_ + ['xe']
            if shape == 'unused-supplied':
                supply = supply + [extra]
        # also supply declared-but-unused variables of the formula itself in the offline monitors (a data set usually has them all)
        order = list(supply)
        if shape == 'shuffled':
            import random
            random.Random(int(c['perm'] * 1e9)).shuffle(order)
        col = lambda i: c['cols'][i] if i < len(c['cols']) else c['cols'][-1]
        nm = lambda i: 'xe' if i == extra else fml.VARS[i]
        base = {'monitor': kind, 'vars': vars_, 'spec': 'out = ' + fml.to_text(f)}
        if c.get('sem'):
            base.update({'semantics': c['sem'], 'ctor': 'combined',
                         'io': {v: ('input' if c['io'][min(k, len(c['io']) - 1)] else 'output') for k, v in enumerate(vars_)}})
        past = fml.has_future(f) and kind.endswith('online') and not any(s[0] in fml.UNB_FUTURE for s in fml.subformulas(f))
        if past:
            base['pastify'] = True
        if c.get('period'):
            base['period'] = c['period']
        if shape in ('first-update-omits', 'update-after-reset-omits'):
            warm = [['update', [['xa', [[0.0, 2.0], [1.0, 0.0]]], ['xb', [[0.0, 1.0], [1.0, 1.0]]]]], ['reset']] if shape == 'update-after-reset-omits' else []
            mk = lambda omit, empty: {'monitor': 'dense-online', 'vars': ['xa', 'xb'], 'spec': 'out = ' + c['text'],
                                      'calls': warm + [['update', [['xa', [[0.0, 1.0]]]] + ([['xb', []]] if empty else [])] if omit else ['update', [['xa', [[0.0, 1.0]]], ['xb', [[0.0, 0.0]]]]],
                                                ['update', [['xa', [[1.0, 0.0]]], ['xb', [[0.0, 0.0], [1.0, 1.0]] if omit else [[1.0, 1.0]]]]], ['update', [['xa', [[2.0, 2.0]]], ['xb', [[2.0, 3.0]]]]]]}
            return [mk(True, False), mk(True, True)]
        if shape in ('huge-bound', 'big-values'):
            base['spec'] = c['text'] if c.get('full') else 'out = ' + c['text']
            base['pastify'] = kind.endswith('online') and any(w in c['text'] for w in ('always', 'eventually', 'next', 'until'))
        ref = None
        if shape in ('object-fields', 'object-fields-same', 'object-fields-nested', 'object-fields-other'):
            import re
            ref = dict(base)          # the same formula over plain float variables: the values every call must return
            head = {'object-fields': 'out.value', 'object-fields-same': 'xa.other', 'object-fields-nested': 'out.inner.v', 'object-fields-other': ''}[shape]
            fld = 'inner.v' if shape == 'object-fields-nested' else 'value'
            body = re.sub(r'\b(x[a-e])\b', r'\1.' + fld, fml.to_text(f))
            if shape == 'object-fields-other':
                base['spec'] = 'sb = ' + re.sub(r'\b(x[a-e])\b', r'\1.other', fml.to_text(f)) + ';\nxa.value = xb.value >= 0;\nout = sb'
                base['objvars'] = vars_
            else:
                base['spec'] = head + ' = ' + body
                base['objvars'] = vars_ + ([] if shape == 'object-fields-same' else ['out'])
            if kind == 'dense-online':
                # one sample per update(): the monitor is called several times
                base['calls'] = [['update', [[nm(i), dense_samples(col(i), c['times'])[k:k + 1]] for i in order]] for k in range(n)]
                ref['calls'] = base['calls']
                return [base, ref]
        if kind == 'discrete-offline':
            data = {'time': c['times']}
            for i in order:
                data[nm(i)] = list(col(i))
            base['calls'] = [['evaluate', data]]
        elif kind == 'discrete-online':
            base['calls'] = [['update', k, [[nm(i), col(i)[k]] for i in order]] for k in range(n)]
        elif kind == 'dense-offline':
            base['calls'] = [['evaluate', [[nm(i), dense_samples(col(i), c['times'])] for i in order]]]
        else:
            base['calls'] = [['update', [[nm(i), dense_samples(col(i), c['times'])] for i in order]]]
        if ref is not None:
            ref['calls'] = base['calls']
            return [base, ref]
        return [base]

    def judge(self, c, mlines, ires):
        m = parse_fields(mlines[0])
        if 'ERROR' in m:
            return 'model-error', mlines
        k = KINDS.index(c['kind'])
        sup = m['SUPP'][k] == '1'
        past = fml.has_future(c['f']) and c['kind'].endswith('online') and not any(s[0] in fml.UNB_FUTURE for s in fml.subformulas(c['f']))
        if past:
            sup = (m['PSUPP'][0] if c['kind'] == 'discrete-online' else m['PSUPP'][1]) == '1'
        i = ires[0]
        stat = [i['setup']] + i['calls']
        det = {'monitor': c['kind'], 'shape': c['shape'], 'pastified': past, 'supported_by_model': sup}
        first_bad = next((s for s in stat if s['status'] != 'ok'), None)
        if c['shape'].startswith('object-fields') and len(ires) > 1 and first_bad is None:
            want = [r.get('value') for r in ires[1]['calls']]
            got = [r.get('value') for r in i['calls']]
            if ires[1]['setup']['status'] == 'ok' and all(r['status'] == 'ok' for r in ires[1]['calls']) and want != got:
                return 'violation', dict(det, expected={'the same formula over float variables': want}, observed={'over fields of objects': got})
        if c['shape'] in ('first-update-omits', 'update-after-reset-omits'):
            oc = lambda r: [r['status'], r.get('value') if r['status'] == 'ok' else r.get('kind')]
            a, b = [oc(r) for r in ires[0]['calls']], [oc(r) for r in ires[1]['calls']]
            if a != b or first_bad is not None:
                return 'violation', dict(det, spec='out = ' + c['text'], expected={'the first update() passes an empty list for xb': b}, observed={'the first update() does not mention xb': a})
            return 'ok', None
        if c['shape'] == 'big-values':
            if first_bad is not None:
                return 'violation', dict(det, spec=c['text'], expected='every call returns normally (the data are finite)', observed=first_bad)
            return 'ok', None
        if c['shape'] == 'huge-bound':
            bad = next((s for s in stat if s['status'] not in ('ok', 'rtamt')), None)
            if bad is not None:
                return 'violation', dict(det, spec='out = ' + c['text'], expected='a value or an RTAMTException', observed=bad)
            return 'ok', None
        if sup:
            if first_bad is not None:
                return 'violation', dict(det, expected='every call returns normally', observed=first_bad)
            return 'ok', None
        if first_bad is None:
            return 'violation', dict(det, expected='RTAMTException no later than the first evaluation', observed={'values': [s.get('value') for s in i['calls']][:2]})
        if first_bad['status'] != 'rtamt':
            return 'violation', dict(det, expected='RTAMTException no later than the first evaluation', observed=first_bad)
        idx = stat.index(first_bad)
        if idx > 1:
            return 'violation', dict(det, expected='RTAMTException no later than the first evaluation', observed={'raised_at_call': idx})
        return 'ok', None

    def signature(self, c, detail):
        sig = Check.signature(self, c, detail)
        sig['monitor'] = c['kind']
        sig['shape'] = c['shape']
        sig['semantics'] = c.get('sem', 'standard')
        return sig

    def nontrivial(self, c):
        return bool(fml.ops(c['f']) & (fml.UN | fml.BIN | fml.TUN | fml.TBIN) - {'not', 'and', 'or', 'implies', 'iff', 'xor'})

    def features(self, c):
        return [c['kind'], c['shape'], c.get('sem', 'standard')] + sorted(fml.ops(c['f']))

    def key(self, c):
        return json.dumps([fml.to_sx(c['f']), c['kind'], c['shape'], c['n'], c.get('text'), c.get('period')])

    def describe(self, c):
        return {'spec': 'out = ' + fml.to_text(c['f']), 'monitor': c['kind'], 'shape': c['shape'], 'n': c['n']}


def main(tier, seed, replay=None):
    return C17().main(tier, seed, replay)
