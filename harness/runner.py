# runner.py — the skeleton every property check shares:
#   build + obligations -> corpus + generated cases -> model (batch) and
#   implementation (pool) -> judge -> shrink failing cases -> known findings
#   -> VIOLATION lines / evidence.
import os
import json
import random
from harness import fml, shrink
from harness.common import (Model, Report, run_impl, obligations, ensure_build, load_known,
                            broken_obligation, generator_failures, VERIF)


class Check(object):
    """Subclass and provide: PID, gen_cases(rng, tier) -> [c], model_lines(c) -> [str],
    impl_cases(c) -> [case dict], judge(c, mlines, ires) -> (verdict, detail),
    optional: signature(c, detail), describe(c), nontrivial(c), RULE."""
    PID = None
    RULE = ''
    MAX_REPORT = 8
    SHRINK_BUDGET = 200
    SHRINK = True

    def gen_cases(self, rng, tier):
        raise NotImplementedError

    def model_lines(self, c):
        raise NotImplementedError

    def impl_cases(self, c):
        raise NotImplementedError

    def judge(self, c, mlines, ires):
        raise NotImplementedError

    def nontrivial(self, c):
        return fml.size(c['f']) >= 3 if 'f' in c else True

    def key(self, c):
        return json.dumps(c, sort_keys=True, default=str)

    def features(self, c):
        return sorted(fml.ops(c['f'])) if 'f' in c else []

    def signature(self, c, detail):
        sig = {'ops': self.features(c), 'n': c.get('n', 0)}
        obs = detail.get('observed') if isinstance(detail, dict) else None
        if isinstance(obs, dict):
            sig['status'] = obs.get('status')
            sig['kind'] = obs.get('kind')
        return sig

    def describe(self, c):
        return c

    def replay_cases(self, c):
        return self.impl_cases(c)

    def corpus(self):
        d = os.path.join(VERIF, 'harness', 'corpus', self.PID)
        out = []
        if os.path.isdir(d):
            for fn in sorted(os.listdir(d)):
                if fn.endswith('.json'):
                    c = json.load(open(os.path.join(d, fn)))
                    out.append(self.load_case(c))
        return out

    def load_case(self, c):
        c = dict(c)
        for k in ('f', 'g'):
            if k in c:
                c[k] = shrink.detuple(c[k])
        if 'fs' in c:
            c['fs'] = [shrink.detuple(x) for x in c['fs']]
        return c

    def normalize(self, c):
        return c

    def evaluate(self, model, cs, interactive=False):
        cs = [self.normalize(c) for c in cs]
        lines, spans = [], []
        for c in cs:
            ls = self.model_lines(c)
            spans.append((len(lines), len(ls)))
            lines.extend(ls)
        if interactive:
            mres = [model.one(l) for l in lines]
        else:
            mres = model.batch(lines)
        icases, ispans = [], []
        for c in cs:
            ic = self.impl_cases(c)
            ispans.append((len(icases), len(ic)))
            icases.extend(ic)
        ires = run_impl(icases)
        out = []
        for c, (a, k), (ia, ik) in zip(cs, spans, ispans):
            out.append(self.judge(c, mres[a:a + k], ires[ia:ia + ik]))
        return out

    def still_fails(self, model, c, shape=None):
        """predicate of the shrinker: the case still fails, and in the same way (same signature shape), so that
        shrinking cannot drift from an unknown failure into a listed known finding"""
        try:
            v, d = self.evaluate(model, [c], interactive=True)[0]
        except Exception:
            return False, None
        if v != 'violation':
            return False, d
        if shape is not None:
            try:
                if self.signature(self.normalize(c), d).get('shape') != shape:
                    return False, d
            except Exception:
                return False, d
        return True, d

    def extra_evidence(self):
        return {}

    COST_LIMIT = 60000000

    def cheap(self, c):
        """the naive specification evaluator of the model is exponential in the nesting depth of unbounded binary
        operators: cases whose estimated cost is beyond the limit are not generated (counted in the evidence)"""
        try:
            n = max(int(c.get('n', 0) or 0), int(c.get('n2', 0) or 0), 1)
            fs = [c[k] for k in ('f', 'g', 'lhs', 'rhs') if k in c and isinstance(c[k], tuple)] + [x for x in c.get('fs', []) if isinstance(x, tuple)]
            if 'sigs' in c:
                n = max([len(s) for s in c['sigs']] + [1]) * 8
            return all(fml.cost(f, n) <= self.COST_LIMIT for f in fs)
        except Exception:
            return True

    def main(self, tier, seed, replay=None):
        rep = Report(self.PID, tier, seed)
        ok, log, _ = ensure_build()
        # a failure somewhere in the build concerns this property only if its own theorem file (with everything it imports) no longer
        # compiles, or a generator it rests on refused the source; the correspondence below runs whenever a model driver exists
        obl = obligations(self.PID)
        for g, txt in generator_failures(self.PID):
            obl['ok'] = False
            obl['log'] = 'generator %s failed on the current source:\n%s\n' % (g, txt) + obl['log']
        if not ok and not obl['ok']:
            obl['log'] = log[-1500:] + obl['log']
        rng = random.Random(seed)
        model = Model()
        if replay:
            r = json.load(open(replay))
            cs = [self.load_case(r['c'])] if 'c' in r else []
        else:
            cs = self.corpus() + self.gen_cases(rng, tier)
        cs = [self.normalize(c) for c in cs]
        ncs = len(cs)
        cs = [c for c in cs if self.cheap(c)]
        self.skipped_costly = ncs - len(cs)
        verdicts = self.evaluate(model, cs) if os.path.exists(os.path.join(VERIF, 'build', 'model_driver')) else []
        stats, hist, distinct, failing = {}, {}, set(), []
        for c, (v, d) in zip(cs, verdicts):
            stats[v] = stats.get(v, 0) + 1
            if v == 'ok':
                if self.nontrivial(c):
                    distinct.add(self.key(c))
                for o in self.features(c):
                    hist[o] = hist.get(o, 0) + 1
            elif v != 'dropped':
                failing.append((c, v, d))
        known = load_known(self.PID)
        reported = set()
        nshrunk = 0
        # visit failing cases round-robin over their (unshrunk) signatures so that a
        # frequent known finding cannot hide a rarer violation behind the shrink budget
        groups = {}
        for item in failing:
            c, v, d = item
            try:
                g = json.dumps(self.signature(c, d), sort_keys=True, default=str) if v == 'violation' else v
            except Exception:
                g = v
            groups.setdefault(g, []).append(item)
        order = []
        while any(groups.values()):
            for g in list(groups):
                if groups[g]:
                    order.append(groups[g].pop(0))
        for (c, v, d) in order:
            if v != 'violation':
                if len(rep.violations) < self.MAX_REPORT:
                    rep.violation({'kind': 'broken-correspondence', 'what': v, 'c': c, 'detail': d,
                                   'theorem_or_correspondence': 'model vs specification layer / model driver (' + str(v) + ')'},
                                  suffix='no-failing-input-found')
                continue
            try:
                sig0 = self.signature(c, d)
                shape0 = sig0.get('shape')
            except Exception:
                sig0, shape0 = {}, None
            # a listed finding whose signature is its shape alone is recognised before shrinking (the shrinker keeps the shape), so that
            # frequent known findings do not use up the shrink budget and hide other failures behind it
            pre = [kf for kf in known if set(kf.get('signature', {})) == {'shape'} and shrink.sig_match(kf['signature'], sig0)]
            if pre:
                rep.known(pre[-1])
                continue
            nshrunk += 1
            try:
                # (beyond 60 shrunk cases the remaining ones are judged unshrunk: none is skipped)
                c2, d2 = shrink.shrink_case(c, lambda x: self.still_fails(model, x, shape0), budget=self.SHRINK_BUDGET) if (self.SHRINK and 'f' in c and nshrunk <= 60) else (c, d)
            except Exception:
                c2, d2 = c, d          # a failing case is reported unshrunk rather than lost
            if d2 is None:
                d2 = d
            c2 = self.normalize(c2)
            k = self.key(c2)
            if k in reported:
                continue
            reported.add(k)
            sig = self.signature(c2, d2)
            sk = json.dumps(sig, sort_keys=True, default=str)
            if sk in reported:
                continue
            reported.add(sk)
            hit = None
            for kf in known:
                if shrink.sig_match(kf.get('signature', {}), sig):
                    hit = kf
            if hit is not None:
                rep.known(hit)
                continue
            if len(rep.violations) < self.MAX_REPORT:
                rep.violation({'kind': 'violation', 'c': c2, 'cases': self.replay_cases(c2), 'detail': d2, 'signature': sig})
        if not obl['ok'] and not rep.violations:
            broken_obligation(rep, obl)
        model.close()
        cov = {
            'evaluations': len(cs), 'distinct_nontrivial': len(distinct), 'rule': self.RULE,
            'samples': [self.describe(c) for c in cs[-3:]],
            'traces_validated_against_impl': stats.get('ok', 0),
            'dropped_as_indeterminate': stats.get('dropped', 0),
            'feature_histogram': hist, 'verdicts': stats, 'skipped_as_too_costly_for_the_naive_evaluator': getattr(self, 'skipped_costly', 0),
        }
        cov.update(self.extra_evidence())
        return rep.finish(obl, cov)


# ---- helpers shared by the discrete-time checks ----

def expect_vals(vals):
    return [('inf' if v == float('inf') else '-inf' if v == -float('inf') else v) for v in vals]


def offline_case(f, cols, times, nvars, **kw):
    data = {'time': list(times)}
    for i in range(nvars):
        data[fml.VARS[i]] = list(cols[i])
    case = {'monitor': 'discrete-offline', 'vars': fml.VARS[:nvars], 'spec': 'out = ' + fml.to_text(f),
            'calls': [['evaluate', data]]}
    case.update(kw)
    return case


def online_case(f, cols, times, nvars, used_only=True, **kw):
    used = fml.fvars(f) if used_only else list(range(nvars))
    calls = []
    n = len(times)
    for k in range(n):
        calls.append(['update', times[k], [[fml.VARS[i], cols[i][k]] for i in used]])
    case = {'monitor': 'discrete-online', 'vars': fml.VARS[:nvars], 'spec': 'out = ' + fml.to_text(f), 'calls': calls}
    case.update(kw)
    return case


OBJ_FIELDS = ['', 'value', 'inner.v']      # how a variable is declared and read: a float / a field of a Msg object / a nested field


def gen_obj(rng, nv, force=False):
    """per variable: '' (a float variable) or the field of harness.msgs.Msg through which the formula reads it"""
    obj = [rng.choice(OBJ_FIELDS) for _ in range(nv)]
    if force and not any(obj):
        obj[rng.randrange(nv)] = rng.choice(OBJ_FIELDS[1:])
    return obj


def with_object_fields(case, obj):
    """The same impl.py case with the variables i with obj[i] != '' declared as objects of the imported type harness.msgs.Msg
    ('objvars') and read in the formula through the field obj[i] (xa -> xa.value / xa.inner.v); impl.py wraps the supplied numbers
    into Msg objects whose fields all hold the number, so the values the specification must return are unchanged, and
    set_var_io_type() is still called with the NAME OF THE VARIABLE (the head of the identifier)."""
    import re
    fields = {fml.VARS[i]: fld for i, fld in enumerate(obj or []) if fld}
    if not fields:
        return case
    case = dict(case)
    head, sep, body = case['spec'].partition('=')
    case['spec'] = head + sep + re.sub(r'\b(x[a-e])\b(?!\.)', lambda m: m.group(1) + ('.' + fields[m.group(1)] if m.group(1) in fields else ''), body)
    case['objvars'] = [v for v in case['vars'] if v in fields]
    return case


def time_column(rng, n, kind):
    if kind == 0:
        return list(range(n))
    if kind == 1:
        t, out = 0, []
        for _ in range(n):
            out.append(t)
            t += rng.choice([1, 1, 2, 5, 0.5, 0.25])
        return out
    if kind == 2:
        return [100 - 3 * i for i in range(n)]
    return [rng.randint(-5, 5) for _ in range(n)]


def need_vars(f, nv):
    fv = fml.fvars(f)
    return max(nv, (max(fv) + 1) if fv else 1)
