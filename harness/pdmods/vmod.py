# vmod.py — the Python side of the import oracle used by validate_parser_decl.py
class Hdr(object):
    def __init__(self):
        self.stamp = 0
        self.frame = 'f'

class Msg(object):
    def __init__(self):
        self.value = 0.0
        self.count = 0
        self.label = 's'
        self.hdr = Hdr()

class Num(float):
    pass

class Bad(object):
    def __init__(self):
        raise ValueError('cannot be built')

class Exit(object):
    def __init__(self):
        raise SystemExit(3)

class Prop(object):
    def __init__(self):
        self.ok = 1.5
    @property
    def boom(self):
        raise ValueError('boom')

notatype = 3

def fn():
    return 1.0
