raise KeyboardInterrupt()
