raise RuntimeError('no')
