# declgen.py — generator and comparison helpers for whole specification texts (header, imports, declarations, annotations, assertions),
# taken from the validation script the sub-agent wrote for ParserDecl.v (no rtamt import here: the implementation runs in the workers,
# harness/impl.py call 'tables')
import re
import random
from decimal import Decimal
from fractions import Fraction

def sx(s):
    toks = s.replace('(', ' ( ').replace(')', ' ) ').split()
    pos = [0]

    def item():
        t = toks[pos[0]]
        pos[0] += 1
        if t == '(':
            out = []
            while toks[pos[0]] != ')':
                out.append(item())
            pos[0] += 1
            return out
        return t
    return item()


def canon_dump(s, model):
    """constants are Python floats in rtamt, bounds exact rationals; the model prints the text of the literal.
    The model prints an identifier that ends with one dot as written ('x.'), rtamt the variable ('x')."""
    def canon(x):
        if not isinstance(x, list):
            return x
        if x[0] == 'const':
            return ['const', str(Fraction(float(x[1])) if model else Fraction(x[1]))]
        if x[0] == 'var' and model and x[1].endswith('.') and not x[1].endswith('..'):
            return ['var', x[1][:-1]]
        if x[0].endswith('_t'):
            b = Fraction(Decimal(x[1])) if model else Fraction(x[1])
            e = Fraction(Decimal(x[3])) if model else Fraction(x[3])
            return [x[0], str(b), x[2], str(e), x[4]] + [canon(y) for y in x[5:]]
        return [x[0]] + [canon(y) for y in x[1:]]
    return canon(sx(s))


def parse_model(line):
    if line in ('RTAMT', 'CRASH'):
        return (line, None)
    assert line.startswith('OK '), line
    d = {}
    for part in line[3:].split('|'):
        k, _, v = part.partition(':')
        d[k] = v

    def tab(v):
        return [tuple(x.split('=', 1)) for x in v.split(',')] if v else []

    def lst(v):
        return v.split(',') if v else []
    out = d['out'].split(',') if d['out'] != '-' else [None, None]
    return ('OK', {
        'name': d['name'], 'mods': tab(d['mods']), 'vars': sorted(lst(d['vars'])), 'types': tab(d['types']), 'io': tab(d['io']),
        'consts': tab(d['consts']), 'topics': tab(d['topics']), 'free': sorted(lst(d['free'])), 'out': (out[0], out[1]),
        'asts': [canon_dump(x, True) for x in d['asts'].split(';')] if d['asts'] else [],
    })


# ---------------------------------------------------------------- generation

VARS = ['x', 'y', 'z', 'w', 'a', 'b', 'xa', 'sig', 'v1']
OBJS = ['p', 'q', 'm']
CONSTS = ['c', 'k', 'c2', 'lim']
TYPES = ['float', 'float', 'int', 'complex']
IMPORTS = [('vmod', 'Msg'), ('vmod', 'Msg'), ('vmod', 'Num'), ('vmod', 'Hdr'), ('vmod', 'Prop')]
BAD_IMPORTS = [('vmod', 'Bad'), ('vmod', 'Exit'), ('vmod', 'notatype'), ('vmod', 'fn'), ('vmod', 'Zork'), ('math', 'pi'),
               ('vraise', 'T'), ('nowhere', 'T'), ('vkbd', 'T'), ('vmod', 'Hdr')]
FIELDS = {'Msg': ['value', 'count', 'hdr.stamp', 'value.real', 'label', 'nothing', 'hdr', 'hdr.frame', ''],
          'Num': ['', 'real', 'imag', 'foo'], 'Hdr': ['stamp', 'frame', ''], 'Prop': ['ok', 'ok', 'ok', 'boom', ''],
          'float': ['', '', '', 'real', 'imag.real', 'numerator', 'x'], 'int': ['', '', 'real', 'numerator.imag', 'denominator', 'bit_length'],
          'complex': ['real', 'imag', 'real.imag', '', 'conjugate']}
INT_LITS = ['0', '1', '2', '3', '10', '12', '100']
REAL_LITS = ['1.5', '.5', '2.', '1e3', '3E-2', '0.25', '10.0', '2e0']
HEX_LITS = ['0x1F', '0X1f', '0b101', '0B11', '0x0', '0xff']
UNITS = ['s', 'ms', 'us', 'ns']
UN = ['not', '!', 'always', 'G', 'eventually', 'F', 'historically', 'H', 'once', 'O', 'next', 'X', 'prev', 'Y', 's_next', 'sX', 's_prev', 'sY', '-', '-']
TIMED_UN = ['always', 'G', 'eventually', 'F', 'historically', 'H', 'once', 'O']
BOOL = ['and', '&', 'or', '|', 'implies', '->', 'iff', '<->', 'xor']
TIMED_BIN = ['until', 'U', 'since', 'S', 'unless', 'W']
CMP = ['<=', '>=', '<', '>', '==', '!==']
ARITH = ['+', '-', '-', '*', '/']
FUN1 = ['abs', 'sqrt', 'exp', 'ln', 'rise', 'fall']
FUN2 = ['pow', 'log']
KEYWORDS = ['specification', 'from', 'import', 'input', 'output', 'const', 'float', 'int', 'complex', 'long', 'topic']
MISSPELT = {'specification': ['specifcation', 'Specification', 'spec'], 'from': ['form', 'From'], 'import': ['imports', 'Import', 'imprt'],
            'input': ['inptu', 'Input', 'in'], 'output': ['outptu', 'Output'], 'const': ['cosnt', 'Const', 'constant'],
            'float': ['flaot', 'Float', 'double', 'real'], 'int': ['Int', 'integer', 'uint8', 'bool'], 'complex': ['Complex', 'cmplx'],
            'long': ['Long'], 'topic': ['Topic', 'topics', 'ros_topic']}
SOUP = VARS + CONSTS + OBJS + INT_LITS + REAL_LITS + ['(', ')', '[', ']', ',', ':', ';', '=', '-', '-', '+', '*', '/', '@', '.', '{', '}',
                                                      'internal', 'assertion', 'real', 'bool', 'true', 'ps', 'out'] + KEYWORDS + CMP + BOOL + UN + UNITS



class Gen:
    def __init__(self, rng):
        self.rng = rng
        self.light = rng.random() < 0.6      # no bare binary '-' (the ambiguity listener trips on most of them)
        self.vars = []        # (name, type) declared so far
        self.consts = []
        self.subs = []

    def ident(self):
        r = self.rng
        k = r.random()
        if self.vars and k < 0.55:
            n, ty = r.choice(self.vars)
            f = r.choice(FIELDS.get(ty, ['', 'value']))
            if ty in ('float', 'int') and r.random() < 0.7:
                f = ''
            return n + ('.' + f if f else '')
        if self.consts and k < 0.7:
            return r.choice(self.consts)
        if self.subs and k < 0.8:
            return r.choice(self.subs)
        if k < 0.95:
            return r.choice(VARS)
        return r.choice(['nv.f', 'x.', 'u..', 'a/b', '$t', 'x.real', 'p.value', 'c.'])

    def lit(self):
        return self.rng.choice(INT_LITS + REAL_LITS)

    def bound(self):
        r = self.rng
        k = r.random()
        if k < 0.7:
            t = [r.choice(INT_LITS + ['0', '0', '1', '5', '2.5', '1e1'])]
        elif k < 0.9 and self.consts:
            t = [r.choice(self.consts)]
        else:
            t = [r.choice(VARS + CONSTS)]
        if r.random() < 0.25:
            t.append(r.choice(UNITS))
        return t

    def interval(self):
        r = self.rng
        a, b = self.bound(), self.bound()
        if r.random() < 0.6:      # mostly well-ordered literal bounds
            a, b = ['0'] if r.random() < 0.5 else ['1'], [r.choice(['1', '2', '5', '10', '2.5'])]
            if r.random() < 0.2:
                u = r.choice(UNITS)
                a, b = a + [u], b + [u]
        return ['['] + a + [r.choice([':', ','])] + b + [']']

    def arith(self, d):
        r = self.rng
        k = r.random()
        if d <= 0 or k < 0.35:
            return [self.ident()] if r.random() < 0.7 else [self.lit()]
        if k < 0.65:
            op = r.choice(ARITH)
            if op == '-' and self.light:
                return ['('] + self.arith(d - 1) + [op] + self.arith(d - 1) + [')']
            return self.arith(d - 1) + [op] + self.arith(d - 1)
        if k < 0.72:
            return ['-'] + self.arith(d - 1)
        if k < 0.82:
            return ['('] + self.arith(d - 1) + [')']
        if k < 0.92:
            return [r.choice(FUN1[:4]), '('] + self.arith(d - 1) + [')']
        return [r.choice(FUN2), '('] + self.arith(d - 1) + [','] + self.arith(d - 1) + [')']

    def formula(self, d):
        r = self.rng
        k = r.random()
        if d <= 0 or k < 0.3:
            if r.random() < 0.75:
                return self.arith(1) + [r.choice(CMP)] + self.arith(1)
            return [self.ident()]
        if k < 0.5:
            op = r.choice(UN)
            iv = self.interval() if (op in TIMED_UN and r.random() < 0.5) else []
            return [op] + iv + self.formula(d - 1)
        if k < 0.7:
            return self.formula(d - 1) + [r.choice(BOOL)] + self.formula(d - 1)
        if k < 0.82:
            iv = self.interval() if r.random() < 0.5 else []
            return self.formula(d - 1) + [r.choice(TIMED_BIN)] + iv + self.formula(d - 1)
        if k < 0.92:
            return ['('] + self.formula(d - 1) + [')']
        return [r.choice(FUN1[4:]), '('] + self.formula(d - 1) + [')']

    def expr(self, d=2):
        return self.formula(d) if self.rng.random() < 0.6 else self.arith(d)

    def var_decl(self):
        r = self.rng
        toks = []
        if r.random() < 0.4:
            toks.append(r.choice(['input', 'output']))
        k = r.random()
        if k < 0.6 or not self.imported:
            ty = r.choice(TYPES)
        elif k < 0.95:
            ty = r.choice(self.imported)
        else:
            ty = r.choice(['long', 'Msg', 'uint8', 'Zork'])
        pool = OBJS if ty not in ('float', 'int', 'complex') else VARS
        n = r.choice(pool + [x for x, _ in self.vars][:2] + self.consts[:1])
        toks += [ty, n]
        k = r.random()
        if k < 0.08:
            toks += ['=', self.lit()]                      # always ambiguous
        elif k < 0.40:
            e = self.expr(r.choice([1, 1, 2]))
            toks += ['='] + e
        self.vars.append((n, ty))
        return toks

    def const_decl(self):
        r = self.rng
        n = r.choice(CONSTS + [x for x, _ in self.vars][:1])
        lit = r.choice(INT_LITS + REAL_LITS + HEX_LITS)
        self.consts.append(n)
        return ['const', r.choice(['int', 'float', 'float', 'long', 'complex', 'Msg', 'foo']), n, '=', lit]

    def annotation(self):
        r = self.rng
        n = r.choice([x for x, _ in self.vars] + self.consts + ['x', 'nobody'])
        return ['@', 'topic', '(', n, ',', r.choice(['t1', 'ros/in', 'a.b', n]), ')']

    def assertion(self, last):
        r = self.rng
        toks = []
        k = r.random()
        if k < 0.5:
            nm = 'out'
        elif k < 0.75:
            nm = None
        elif k < 0.9 and self.vars:
            n, ty = r.choice(self.vars)
            f = r.choice(FIELDS.get(ty, ['']))
            nm = n + ('.' + f if f else '')
        else:
            nm = r.choice(['phi', 'req1', 'out.f', 'x', 'c'])
        if nm:
            toks += [nm, '=']
        toks += self.expr(r.choice([1, 2, 2, 3]))
        if not last or r.random() < 0.6:
            toks.append(';')
        if nm:
            self.subs.append(nm)
        return toks

    def minus_spec(self):
        """initialisers and assertions around '-': where does the initialiser end?"""
        r = self.rng
        self.imported = []
        self.light = False

        def term():
            k = r.random()
            if k < 0.5:
                return [r.choice(VARS[:5] + ['1', '2.5'])]
            if k < 0.65:
                return [r.choice(VARS[:5]), r.choice(['*', '/', '+']), r.choice(VARS[:5])]
            if k < 0.75:
                return [r.choice(['not', 'always', 'prev', '-', 'once [ 0 , 1 ]'])] + [r.choice(VARS[:5])]
            if k < 0.85:
                return [r.choice(VARS[:5]), r.choice(CMP + ['and', 'until', 'since [ 0 : 2 ]']), r.choice(VARS[:5] + ['0'])]
            if k < 0.95:
                return ['(', r.choice(VARS[:5]), '-', r.choice(VARS[:5]), ')']
            return [r.choice(FUN1), '(', r.choice(VARS[:5]), '-', '1', ')']

        def chain(n):
            out = term()
            for _ in range(n):
                out += [r.choice(['-', '-', '-', '- -', '+', '>'])] + term()
            return ' '.join(out).split()
        segs = []
        for _ in range(r.choice([1, 1, 2, 3])):
            k = r.random()
            if k < 0.75:
                d = [r.choice(['float', 'int', 'input float']), r.choice(['y', 'w', 'v1'])]
                d = ' '.join(d).split()
                if r.random() < 0.85:
                    d += ['='] + chain(r.choice([0, 1, 1, 2, 3]))
                segs.append(d)
            elif k < 0.9:
                segs.append(['const', 'int', r.choice(['c', 'k']), '=', r.choice(['1', '2.5', '0x3'])])
            else:
                segs.append(['@', 'topic', '(', 'y', ',', 't', ')'])
        n = r.choice([1, 1, 2])
        for i in range(n):
            a = []
            if r.random() < 0.4:
                a += [r.choice(['out', 'y', 'phi']), '=']
            if r.random() < 0.5:
                a += ['-']
            a += chain(r.choice([0, 0, 1, 2]))
            k = r.random()
            if i < n - 1 or k < 0.6:
                a.append(';')
            if r.random() < 0.15 and a[-1] == ';':
                a.pop()
            segs.append(a)
        return segs

    def spec(self):
        """a list of segments (each a list of tokens): header, imports, items, assertions"""
        r = self.rng
        if r.random() < 0.15:
            return self.minus_spec()
        segs = []
        self.imported = []
        if r.random() < 0.3:
            segs.append(['specification', r.choice(['s1', 'my_spec', 'a.b', 'x'])])
        for _ in range(r.choice([0, 0, 1, 1, 2])):
            m, n = r.choice(IMPORTS) if r.random() < 0.85 else r.choice(BAD_IMPORTS)
            segs.append(['from', m, 'import', n])
            self.imported.append(n)
        for _ in range(r.choice([0, 1, 2, 2, 3, 4, 5])):
            k = r.random()
            if k < 0.6:
                segs.append(self.var_decl())
            elif k < 0.85:
                segs.append(self.const_decl())
            else:
                segs.append(self.annotation())
        n = r.choice([1, 1, 2])
        for i in range(n):
            segs.append(self.assertion(i == n - 1))
        return segs


def render(rng, segs):
    out = []
    for s in segs:
        out.append(' '.join(s))
    sep = rng.choice(['\n', '\n', ' ', '\n\n', ' // c\n', ' /* c */ '])
    return sep.join(out)


def mutate(rng, segs):
    """returns (kind, text)"""
    k = rng.choice(['del', 'dup', 'swap', 'soup', 'misspell', 'late-decl', 'dup-name', 'bad-type', 'bad-lit', 'semi', 'trunc', 'seg-swap', 'char'])
    segs = [list(s) for s in segs]
    flat = [(i, j) for i, s in enumerate(segs) for j in range(len(s))]
    if not flat:
        return k, ''
    i, j = rng.choice(flat)
    if k == 'del':
        del segs[i][j]
    elif k == 'dup':
        segs[i].insert(j, segs[i][j])
    elif k == 'swap':
        i2, j2 = rng.choice(flat)
        segs[i][j], segs[i2][j2] = segs[i2][j2], segs[i][j]
    elif k == 'soup':
        if rng.random() < 0.5:
            segs[i][j] = rng.choice(SOUP)
        else:
            segs[i].insert(j, rng.choice(SOUP))
    elif k == 'misspell':
        cand = [(a, b) for a, b in flat if segs[a][b] in MISSPELT]
        if cand:
            a, b = rng.choice(cand)
            segs[a][b] = rng.choice(MISSPELT[segs[a][b]])
        else:
            segs.insert(0, [rng.choice(MISSPELT['float']), 'x'])
    elif k == 'late-decl':
        g = Gen(rng)
        g.imported = []
        segs.append(rng.choice([g.var_decl(), g.const_decl(), g.annotation(), ['from', 'vmod', 'import', 'Msg'], ['specification', 's2']]))
        if rng.random() < 0.5:
            segs.append(['out', '=', 'x', '>', '1', ';'])
    elif k == 'dup-name':
        decls = [s for s in segs if s and (s[0] in ('input', 'output', 'const', 'float', 'int', 'complex') or (len(s) > 1 and s[0] in ('Msg', 'Num', 'Hdr', 'Prop')))]
        pos = max([a for a, s in enumerate(segs) if s in decls] + [-1]) + 1
        if decls:
            d = rng.choice(decls)
            nm = d[d.index('=') - 1] if '=' in d else d[-1]
        else:
            nm = 'x'
            pos = sum(1 for s in segs if s and s[0] in ('specification', 'from'))
        new = rng.choice([['float', nm], ['int', nm], ['const', 'int', nm, '=', '3'], ['input', 'float', nm], ['complex', nm], ['const', 'float', nm, '=', '0x10']])
        segs.insert(rng.choice([pos, pos, max(pos - 1, 0)]), new)
    elif k == 'bad-type':
        pos = sum(1 for s in segs if s and s[0] in ('specification', 'from'))
        segs.insert(pos, [rng.choice(['long', 'real', 'bool', 'uint8', 'Msg', 'Zork', 'double', 'internal', 'Float']), rng.choice(VARS + OBJS)])
    elif k == 'bad-lit':
        pos = sum(1 for s in segs if s and s[0] in ('specification', 'from'))
        bad = rng.choice(['x', '-2', '( 2 )', '2 s', '1.5.2', '0x', '1e', '.', 'true', '2 + 1', '', '= 2', '1 2', 'c', '2 ;'])
        segs.insert(pos, ['const', rng.choice(['int', 'float']), rng.choice(CONSTS), '='] + bad.split())
    elif k == 'semi':
        segs[i].insert(rng.randrange(len(segs[i]) + 1), ';')
    elif k == 'trunc':
        segs = segs[:i] + [segs[i][:j]]
    elif k == 'seg-swap':
        i2 = rng.randrange(len(segs))
        segs[i], segs[i2] = segs[i2], segs[i]
    text = render(rng, segs)
    if k == 'char':
        pos = rng.randrange(len(text) + 1)
        text = text[:pos] + rng.choice(['#', '~', '%', '^', '`', "'", '\\', '?', '"', 'é', '/*', '//', '$', '.', '/', '_x']) + text[pos:]
    return k, text


FIXED = [
    # the oddities the task names, and the choice points of the body grammar
    'float y = x + 1\nout = y > 2', 'float y = 1\nout = y > 2', 'float y = 1 + 2\nout = y > 2', 'float y = x\n-z > 0', 'float y = x - z > 0',
    'float y = x - z > 0 out = y', 'float y = 1 - 2;', 'float y = 1 - 2 out = y;', 'float y = x - z - w;', 'float y = x - z - w out = y',
    'float y = x * z - w;', 'float y = not x - w;', 'float y = (x - z);', 'float y = x - z > 0; out = y;', 'float y = abs(x) - z;',
    'float y = always[0,1] x - z;', 'float y = x until[0,1] z - w;', 'float y = x - z float w = a - b;', 'float y = x - z w = a - b;',
    'float y = x - z; w = a - b;', 'float y = x - - z;', 'float y = x - z - w - v;', 'float y = x > a - b;', 'float y = x - a > b;',
    'float y = x - z\nfloat w = a - b - c;', 'float y = x - z\nfloat w = a - b out = c - d;', 'float y = 1', 'float y = 1 float z out = y',
    'float y = 1 @topic(y,t) out = y', 'float y = 1 const int c = 2 out = y', 'float y = -1 out = y', 'float y = x and -z > 0;',
    'float y = x\n- z and - w > 0;', 'float y = a - b ; c - d ;', 'float y;\nout = y > 2', 'float y\nout = y > 2',
    'float x float x int x\nout = x > 1', 'const int x = 1 float x\nout = x > 1', 'float x const int x = 1\nout = x > 1',
    'const int c = 1 const int c = 2\nout = x > c', 'complex x\nout = x > 1', 'long x\nout = x > 1', 'real x\nout = x > 1', 'foo p\nout = p > 1',
    'const int c = 2 -x > 0', 'const int c = 0x2\nout = once[0:c] x;', 'const float c = 0b11\nout = x >= c;', 'const float c = 2.5 out = always[0:c] (x > c)',
    'const int c = 3 out = always[c:1] x', 'out = always[0:c] x; const int c = 3', 'float y = always[0:c] x const int c = 3 out = y',
    'const int c = 3 float y = always[0:c] x out = y', 'float y = once[3:1] x out = y', 'float y = q.f out = y', 'float y = y out = y',
    'specification abc\nfrom math import pi\ninput float x\noutput float y\nconst float k = 10.5\n@topic(x, tx)\ny = x > k',
    'specification', 'specification 3 out = x', 'specification a specification b out = x', 'from vmod import Msg specification a out = x',
    'from vmod import Msg\nMsg p\nout = p.value > 1', 'from vmod import Msg\nMsg p\nout = p > 1', 'from vmod import Msg\nMsg p\nout = p.hdr.stamp > p.count',
    'from vmod import Msg\nMsg p\nout = p.label > 1', 'from vmod import Msg\nMsg p\nout = p.nothing > 1', 'from vmod import Msg\nMsg p\np.value = x > 1',
    'from vmod import Msg\nMsg p\np = x > 1', 'from vmod import Num\nNum p\nout = p > 1', 'from vmod import Bad\nBad p\nout = p > 1',
    'from vmod import Exit\nExit p\nout = p > 1', 'from vmod import Prop\nProp p\nout = p.ok > 1', 'from vmod import Prop\nProp p\nout = p.boom > 1',
    'from vmod import Prop\nProp p\nout = once[3:1] x and p.boom > 1', 'from vmod import Prop\nProp p\nout = p.boom > 1 and once[3:1] x',
    'from vmod import Prop\nProp p\nout = q.f > 1 and p.boom > 1', 'from vmod import Prop\nProp p\np.boom = x > 1', 'from vmod import Prop\nProp p\nfloat y = p.boom out = y',
    'from vmod import notatype\nnotatype p\nout = p > 1', 'from vmod import fn\nfn p\nout = p > 1', 'from vmod import Zork\nout = p > 1',
    'from vmod import Zork\nZork p out = p > 1', 'from vraise import T\nout = p > 1', 'from vkbd import T\nout = p > 1', 'from nowhere import T\nout = p > 1',
    'from vmod import Msg\nout = Msg > 1', 'from vmod import Msg from math import Msg Msg p out = p.value', 'from math import Msg from vmod import Msg Msg p out = p.value',
    'from vmod import long long p out = p', 'from vmod import\nout = x', 'from import Msg\nout = x', 'import vmod\nout = x',
    'float x\nout = x.real > x.imag.real', 'int x\nout = x.numerator > x.real.denominator', 'float x\nout = x.numerator > 1', 'complex x\nout = x.real > x.imag',
    'complex x\nout = x.real.real > 1', 'float x\nout = x..real > 1', 'float x\nout = x. > 1', 'float x\nout = x.. > 1', 'float x\nx.real = x > 1',
    'float x\nx.real = y > 1', 'out.a = y > 1', 'a = y > 1;\nb = a and z > 1;\na = b or y > 2', 'const int c = 1\nc = x > c;\nd = c and c > 0',
    'const int c = 1\nout = c. > 1', 'a.real > a', 'a > a.real', 'out = out > 1', 'x = x > 1', 'x = y > 1; y = x', 'x = y > 1; z = x; x = z',
    'float x x = y > 1; out = x', 'input float x\nx = y > 1', 'input float x output float x out = x', 'output float x input float x out = x',
    '@topic(x, t) float x out = x', 'float x @topic(x, t) out = x', 'float x @topic(x, t) float x out = x', 'const int c = 1 @topic(c, t) out = c',
    'const int c = 1 float c @topic(c, t) out = c', 'float y = x @topic(x, t) out = y', '@topic(x, t)', '@topic(x t) out = x', '@ topic ( x , t ) out = x',
    '@ros(x, t) out = x', 'float x @topic(x, 1) out = x', 'input x out = x', 'input float out = x', 'input output float x out = x', 'float input x out = x',
    'a b out = x', 'a b = c d;', 'a b = c d e = f;', 'foo a = b c = d;', 'float a b = c;', 'Msg p out = x', 'const x = 1 out = x', 'const int = 1 out = x',
    'const int c 1 out = x', 'const int c = x out = c', 'const int c = -1 out = c', 'const int c = (1) out = c', 'const int c = 1 s out = c', 'const int c = 1; out = c',
    'const Msg c = 1 out = c', 'const foo c = 2 out = c > 1', '', ';', 'out = x', 'x', 'x;;', 'out = x; y = ', 'float x', 'float x;', 'const int c = 1', 'const int c = 1;',
    'from vmod import Msg', 'specification s', 'specification s ;', 'float s out = s', 'float ms out = x', 'float G out = x', 'float out out = out > 1', 'int out = 3 + x',
    # who stays an input is decided when every assertion is known (D80): read before / after / in another assertion than the write
    'int y\na = y > 1\ny.real = x\nout = y.imag > 0', 'int y\ny.real = x\nout = y > 0', 'int y\nout = y > 0\ny.real = x', 'int y\ny.real = x\nout = x > 0',
    'a = y > 1\ny = x\nout = a', 'y = x\na = y > 1\ny = a', 'int y\nfloat a = rise ( ( y - 0.25 ) <= - a/b )\ny.numerator.imag = - exp ( 12 ) ;\nout = exp ( y ) == ( y.real ) ;',
]


def out_of_fragment(text):
    """texts the existing Lexer.v / Elab.v do not claim to model: integer literals with a leading zero or underscores,
    hexadecimal / binary literals anywhere but as the value of a constant declaration, control characters"""
    t = re.sub(r'/\*.*?\*/', ' ', text, flags=re.S)
    t = re.sub(r'//[^\n]*', ' ', t)
    if re.search(r'(?<![A-Za-z0-9_$./])0[0-9]', t) or re.search(r'(?<![A-Za-z_$./0-9])[0-9.]+_', t):
        return True
    # a literal with a leading zero right after a division sign (`1/00`: the run does not start like an identifier, so `/` is the operator)
    for run in re.findall(r'[A-Za-z0-9_$./]+', t):
        if not re.match(r'[A-Za-z_$]', run) and any(re.match(r'0[0-9]', piece) for piece in run.split('/')):
            return True
    for m in re.finditer(r'(?<![A-Za-z0-9_$./])0[xXbB][0-9a-fA-F]*', t):
        pre = t[:m.start()].split()
        if not (len(pre) >= 4 and pre[-1] == '=' and pre[-4] == 'const'):
            return True
        if re.match(r'[A-Za-z_$./]', t[m.end():m.end() + 1] or ' '):
            return True
    return False

