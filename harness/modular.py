# modular.py — shared by C09 (modular = inlined) and C12 (get_value of named
# sub-formulas): random decompositions of a formula into named
# sub-specifications and declared constants.
import json
from harness import fml
from harness.common import parse_fields
from harness.runner import Check, need_vars, expect_vals


def replace_all(f, target, ref):
    if f == target:
        return ref
    return fml.rebuild(f, [replace_all(c, target, ref) for c in fml.children(f)])


def decompose(rng, f, k, as_text=False):
    """returns (subs, main) where subs = [(name, formula-with-refs, inlined-formula)] in definition order"""
    cands = [s for s in fml.subformulas(f) if s[0] not in ('var', 'const') and s != f]
    seen, uniq = set(), []
    for s in cands:
        if s not in seen:
            seen.add(s)
            uniq.append(s)
    rng.shuffle(uniq)
    chosen = sorted(uniq[:k], key=fml.size)
    subs = []
    cur_defs = []
    main = f
    for i, s in enumerate(chosen):
        name = 'sp%d' % (i + 1)
        body = s
        for (nm, orig) in cur_defs:
            body = replace_all(body, orig, ('ref', nm))
        subs.append((name, body, s))
        cur_defs.append((name, s))
    for (nm, orig) in reversed(cur_defs):
        main = replace_all(main, orig, ('ref', nm))
    return subs, main


def constify(rng, f, consts):
    """replace some literal constants by declared constants"""
    if f[0] == 'const' and rng.random() < 0.5:
        nm = 'cc%d' % f[1]
        if nm not in [c[0] for c in consts]:
            consts.append([nm, 'float', str(f[1])])
        return ('ref', nm)
    return fml.rebuild(f, [constify(rng, c, consts) for c in fml.children(f)])


def gen_modular(rng, tier, nrand_quick, nrand_thorough, gen_kwargs=None, base=True):
    cases = []
    nrand = nrand_quick if tier == 'quick' else nrand_thorough
    P = ('pred', 'geq', ('var', 0), ('const', 1))
    Q = ('pred', 'leq', ('var', 1), ('const', 2))
    base = [('and', ('once', P), ('prev', ('once', P))), ('since', ('prev', P), ('or', ('prev', P), Q)), ('or', ('oncet', 0, 2, P), ('not', ('oncet', 0, 2, P))),
            ('and', ('evt', 0, 2, P), ('alwt', 1, 2, ('evt', 0, 2, P))), ('implies', ('hist', P), ('sincet', 0, 1, ('hist', P), Q)),
            ('a2', 'add', ('sprev', ('var', 0)), ('sprev', ('var', 0))), ('until', P, ('next', Q)), ('rise', ('and', P, Q)),
            ('and', ('evt', 0, 2, P), ('var', 1)), ('since', ('evt', 1, 2, P), ('untilt', 0, 1, ('var', 1), Q))]
    items = [(f, 2) for f in base for _ in range(2)] if base is True else []
    gen_kwargs = gen_kwargs or {}
    for i in range(nrand):
        nv = rng.choice([1, 2, 2, 3])
        g = fml.Gen(rng, nvars=nv, maxb=2, fancy_arith=False, **gen_kwargs)
        f = g.formula(rng.choice([2, 2, 3, 3, 4]))
        if fml.size(f) > 40 or fml.size(f) < 4:
            continue
        items.append((f, nv))
    for (f, nv) in items:
        nv = need_vars(f, nv)
        k = rng.choice([1, 1, 2, 3, 4])
        subs, main = decompose(rng, f, k)
        if not subs:
            continue
        consts = []
        if rng.random() < 0.4:
            subs = [(n, constify(rng, b, consts), s) for (n, b, s) in subs]
            main = constify(rng, main, consts)
        n = rng.choice([1, 2, 3, 5, 8, 12])
        c = {'f': f, 'n': n, 'nv': nv, 'cols': fml.gen_trace(rng, nv, n), 'times': list(range(n)),
             'subs': [[nm, b, s] for (nm, b, s) in subs], 'main': main, 'consts': consts,
             'style': rng.choice(['add_sub_spec', 'one_text', 'add_sub_spec_nosemi'])}
        if (fml.ops(f) & (fml.TUN | fml.TBIN)) and rng.random() < 0.2:
            # bounds written with explicit units, another default unit and a sampling period in another unit
            p, pu = rng.choice([(1, 's'), (500, 'ms'), (2, 's'), (100, 'us'), (1000, 'ms'), (1, 'ms')])
            pns = p * UNITS[pu]
            alts = [(pns // UNITS[u], u) for u in UNITS if pns % UNITS[u] == 0]
            c['units'] = {'period': list(rng.choice(alts)) + [0.1], 'unit': rng.choice(list(UNITS)), 'pns': pns, 'seed': rng.randrange(1 << 20)}
            if rng.random() < 0.4:
                # the upper bound of every interval is a declared constant without unit next to a lower bound with an explicit unit
                # (in the inlined form: a bare literal, which takes the unit of the lower bound)
                c['units']['cbounds'] = True
        cases.append(c)
    return cases


UNITS = {'s': 10**9, 'ms': 10**6, 'us': 10**3, 'ns': 1}


def bound_renderer(c, consts=None):
    """None (plain sample counts) or a renderer that spells every bound with explicit units; with consts (a list to extend) the
    upper bounds of a 'cbounds' case are declared constants"""
    u = c.get('units')
    if not u:
        return None
    import random
    from harness.c08 import spell_bound, dec
    if u.get('cbounds'):
        def cbound(b, e):
            r = random.Random(u['seed'] * 1000003 + b * 131 + e)
            un = r.choice([x for x in UNITS if (b * u['pns']) % 1 == 0])
            sep = r.choice([',', ':'])
            lo = dec(b * u['pns'], un) + un
            hi = dec(e * u['pns'], un)
            if r.random() < 0.5:
                # the other way round: the unit stands after the constant, the lower bound is bare and takes it (`[0, T ms]`)
                lo = dec(b * u['pns'], un)
                if consts is None:
                    return '[%s%s%s%s]' % (lo, sep, hi, un)
                nm = 'tu%d_%d' % (b, e)
                if nm not in [x[0] for x in consts]:
                    consts.append([nm, 'float', hi])
                return '[%s%s%s %s]' % (lo, sep, nm, un)
            if consts is None:
                return '[%s%s%s]' % (lo, sep, hi)
            nm = 'tb%d_%d' % (b, e)
            if nm not in [x[0] for x in consts]:
                consts.append([nm, 'float', hi])
            return '[%s%s%s]' % (lo, sep, nm)
        return cbound

    def bound(b, e):
        r = random.Random(u['seed'] * 1000003 + b * 131 + e)
        return spell_bound(r, b * u['pns'], e * u['pns'], u['unit'])[0]
    return bound


def unit_kw(c):
    u = c.get('units')
    return {'period': u['period'], 'unit': u['unit']} if u else {}


def modular_spec(c):
    """(kwargs for the implementation case) of the modular program"""
    consts = [list(x) for x in c.get('consts', [])]
    br = bound_renderer(c, consts)
    subtexts = ['%s = %s;' % (nm, fml.to_text(shrinkfix(b), br)) for (nm, b, s) in c['subs']]
    main = 'out = ' + fml.to_text(shrinkfix(c['main']), br)
    if c.get('style') == 'one_text':
        return dict({'spec': '\n'.join(subtexts) + '\n' + main + ';', 'consts': consts}, **unit_kw(c))
    if c.get('style') == 'add_sub_spec_nosemi':
        # the final ';' of every sub-specification (and of the specification) omitted, some with a comment after the last token
        tails = ['', ' ', ' // sub', '\n']
        subtexts = [t[:-1] + tails[(k + len(t)) % len(tails)] for k, t in enumerate(subtexts)]
    return dict({'subspecs': subtexts, 'spec': main, 'consts': consts}, **unit_kw(c))


def inlined_spec(c, f=None):
    """the inlined formula (or a named sub-formula) as a stand-alone specification, in the same unit setting"""
    return dict({'spec': 'out = ' + fml.to_text(f if f is not None else c['f'], bound_renderer(c))}, **unit_kw(c))


def shrinkfix(f):
    from harness import shrink
    return shrink.detuple(f)
