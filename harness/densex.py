# densex.py — dense-time halves of the properties whose statement covers
# dense-time monitors as well (C06, C07, C08, C10, C12, C16, C18): extra
# case streams that drive StlDenseTime* specifications, plugged into the
# discrete-time checks with extend().
import json
import math
import random
from harness import fml, dense
from harness.common import parse_fields

FUT_T = {'evt', 'alwt', 'untilt'}
UNB_FUT = {'ev', 'alw', 'until'}
DENSE_UNSUPPORTED = {'rise', 'fall', 'prev', 'sprev', 'next', 'snext', 'precedes'}


def even(f):
    if f[0] in fml.TUN or f[0] in fml.TBIN:
        return (f[0], 2 * f[1], 2 * f[2]) + tuple(even(c) for c in f[3:])
    return fml.rebuild(f, [even(c) for c in fml.children(f)])


def gen_formula(rng, nv, depth, future=True, unbounded_future=True, past=True, iffxor=True, maxb=3):
    g = fml.Gen(rng, nvars=nv, maxb=maxb, risefall=False, prevnext=False, future=future, past=past, unbounded_future=unbounded_future,
                fancy_arith=False, raw_leaf=0.05, iffxor=iffxor)
    return even(g.formula(depth))


def hor_ticks(f):
    """look-ahead in ticks (bounded future operators only)"""
    k = [hor_ticks(c) for c in fml.children(f)]
    m = max(k) if k else 0
    if f[0] in FUT_T:
        return m + f[2]
    return m


def text(f):
    return dense.dense_formula_text(f)


def sigs_sx(sigs):
    return ' '.join(dense.sig_sx(s) for s in sigs)


def offline_case(f, sigs, nv, **kw):
    used = fml.fvars(f)
    case = {'monitor': 'dense-offline', 'vars': fml.VARS[:nv], 'spec': 'out = ' + text(f),
            'calls': [['evaluate', [[fml.VARS[i], dense.to_impl(sigs[i])] for i in used]]]}
    case.update(kw)
    return case


def online_case(f, sigs, nv, batches=None, **kw):
    """batches: list of {var index: (lo, hi)}; default = everything in one update"""
    used = fml.fvars(f)
    if batches is None:
        batches = [{i: (0, len(sigs[i])) for i in used}]
    calls = [['update', [[fml.VARS[i], dense.to_impl(sigs[i][b[i][0]:b[i][1]])] for i in used]] for b in batches]
    case = {'monitor': 'dense-online', 'vars': fml.VARS[:nv], 'spec': 'out = ' + text(f), 'calls': calls}
    case.update(kw)
    return case


def per_sample_batches(f, sigs):
    used = fml.fvars(f)
    k = min(len(sigs[i]) for i in used)
    return [{i: ((j, j + 1) if j < k - 1 else (j, len(sigs[i]))) for i in used} for j in range(k)]


def call_value(r):
    """('ok', samples) | ('fail', outcome)"""
    if r['status'] != 'ok':
        return 'fail', r
    return 'ok', dense.from_impl(r['value'])


def same_on(a, b, lo, hi):
    """None if two sample lists denote the same step function at every tick of [lo, hi]"""
    t = int(math.ceil(lo))
    while t <= hi:
        x, y = dense.den(a, t), dense.den(b, t)
        if x != y:
            return {'t': t * dense.SCALE, 'first': x, 'second': y}
        t += 1
    return None


def domain(f, sigs):
    used = fml.fvars(f)
    return max(sigs[i][0][0] for i in used), max(sigs[i][-1][0] for i in used), min(sigs[i][-1][0] for i in used)


def gen_sigs(rng, nv, maxn=6, minn=1):
    out = []
    for _ in range(nv):
        s = dense.gen_signal(rng, maxn=maxn, start0=True)
        while len(s) < minn:
            s = dense.gen_signal(rng, maxn=maxn, start0=True)
        out.append(s)
    return out


def need_vars(f, nv):
    v = fml.fvars(f)
    return max(nv, (max(v) + 1) if v else 1)


class Extra(object):
    RULE = ''

    def gen(self, rng, tier):
        return []

    def signature(self, c, detail):
        sig = {'ops': sorted(fml.ops(c['f'])) if 'f' in c else [], 'monitor': 'dense', 'shape': 'dense'}
        if isinstance(detail, dict) and detail.get('shape'):
            sig['shape'] = detail['shape']
        return sig

    def key(self, c):
        return json.dumps(c, sort_keys=True, default=str)

    def nontrivial(self, c):
        return True

    def features(self, c):
        fs = ['dense']
        if 'f' in c:
            fs += ['dense:' + o for o in sorted(fml.ops(c['f']))]
        return fs

    def describe(self, c):
        return {k: (text(v) if k in ('f', 'lhs', 'rhs') else v) for k, v in c.items() if not k.startswith('_')}

    def normalize(self, c):
        return c


# ---------------------------------------------------------------- C16
class D16(Extra):
    RULE = ('dense-time formulas without unbounded future x signals w1 and an extension w2 (1-3 further samples per variable after the end of w1); '
            'dense offline evaluate() on both must agree at every tick t with t + horizon < end of w1')

    def gen(self, rng, tier):
        out = []
        n = 150 if tier == 'quick' else 2500
        for _ in range(n):
            nv = rng.choice([1, 2, 2])
            f = gen_formula(rng, nv, rng.choice([1, 2, 2, 3]), unbounded_future=False)
            if fml.size(f) > 24 or not fml.fvars(f):
                continue
            nv = need_vars(f, nv)
            s1 = gen_sigs(rng, nv, minn=2)
            tmax = max(s[-1][0] for s in s1)
            s2 = []
            for s in s1:
                t = tmax + rng.choice([2, 4])
                ext = []
                for _k in range(rng.randint(1, 3)):
                    ext.append([t, rng.randint(-4, 5)])
                    t += rng.choice([2, 4, 6])
                s2.append(list(s) + ext)
            out.append({'f': f, 'nv': nv, 'sigs': s1, 'sigs2': s2, 'n': max(len(s) for s in s1)})
        # bounded until with a positive lower bound: a short pulse of the right operand, silence until the end of w1, a late rise in the extension
        for _ in range(n // 4):
            a = rng.choice([2, 4])
            b = a + rng.choice([2, 4])
            f = ('untilt', a, b, ('pred', 'geq', ('var', 0), ('const', 0)), ('pred', 'geq', ('var', 1), ('const', 0)))
            if rng.random() < 0.3:
                f = (rng.choice(['and', 'or']), f, ('pred', 'leq', ('var', 0), ('const', 9)))
            t1 = rng.choice([2, 4, 6])
            t2 = t1 + rng.choice([2, 4])
            end = t2 + b + rng.choice([8, 12, 16])
            p = [[0, rng.randint(1, 5)], [end, rng.randint(1, 5)]]
            q = [[0, -rng.randint(1, 3)], [t1, rng.randint(1, 4)], [t2, -rng.randint(1, 3)], [end, -1]]
            s1 = [p, q]
            s2 = [p + [[end + 4, 3]], q + [[end + 4, rng.randint(5, 9)], [end + 12, 2]]]
            out.append({'f': f, 'nv': 2, 'sigs': s1, 'sigs2': s2, 'n': 4})
        # bounded since with a positive lower bound: both operands hold until the end of w1, the left one collapses right after it
        # (a past operator must not read the extension)
        for _ in range(n // 4):
            a = rng.choice([2, 4])
            b = a + rng.choice([2, 4])
            f = ('sincet', a, b, ('pred', 'geq', ('var', 0), ('const', 0)), ('pred', 'geq', ('var', 1), ('const', 0)))
            if rng.random() < 0.3:
                f = (rng.choice(['and', 'or']), f, ('pred', 'leq', ('var', 1), ('const', 9)))
            end = rng.choice([8, 12, 16])
            p = [[0, rng.randint(1, 5)], [end, rng.randint(1, 5)]]
            q = [[0, rng.randint(1, 4)], [rng.choice([2, 4]), rng.randint(1, 4)], [end, rng.randint(1, 3)]]
            s1 = [p, q]
            s2 = [p + [[end + rng.choice([1, 2]), -rng.randint(2, 6)]], q + [[end + 4, -rng.randint(1, 3)]]]
            out.append({'f': f, 'nv': 2, 'sigs': s1, 'sigs2': s2, 'n': 3})
        return out

    def normalize(self, c):
        c = dict(c)
        # after shrinking sigs, keep sigs2 an extension of sigs
        s2 = []
        for a, b in zip(c['sigs'], c['sigs2']):
            tail = [p for p in b if p[0] > a[-1][0]] if a else []
            s2.append([list(p) for p in a] + [list(p) for p in tail])
        c['sigs2'] = s2
        return c

    def model_lines(self, c):
        t0, tmax, tmin = domain(c['f'], c['sigs'])
        return ['(rhoz std %s (%s) %d %d)' % (fml.to_sx(c['f']), sigs_sx(c['sigs']), t0, max(tmax, t0)),
                '(rhoz std %s (%s) %d %d)' % (fml.to_sx(c['f']), sigs_sx(c['sigs2']), t0, max(tmax, t0))]

    def impl_cases(self, c):
        return [offline_case(c['f'], c['sigs'], c['nv']), offline_case(c['f'], c['sigs2'], c['nv'])]

    def judge(self, c, mlines, ires):
        if any(l.startswith('ERROR') for l in mlines):
            return 'model-error', mlines
        if not all(dense.dn_exact(l) for l in mlines):
            return 'dropped', None
        f = c['f']
        if fml.ops(f) & UNB_FUT:
            return 'dropped', None
        t0, tmax, tmin = domain(f, c['sigs'])
        h = hor_ticks(f)
        det = {'spec': 'out = ' + text(f), 'w1_ticks': c['sigs'], 'w2_ticks': c['sigs2'], 'tick_s': dense.SCALE, 'horizon_ticks': h}
        vals = []
        for i in ires:
            if i['setup']['status'] != 'ok':
                return 'violation', dict(det, observed=i['setup'])
            k, v = call_value(i['calls'][0])
            if k != 'ok':
                return 'violation', dict(det, observed=v)
            vals.append(v)
        hi = tmin - h - 1
        if hi < t0:
            return 'ok', None
        d = same_on(vals[0], vals[1], t0, hi)
        if d is not None:
            return 'violation', dict(det, expected='equal values at every t with t + horizon < end of w1', observed=d, on_w1=ires[0]['calls'][0]['value'], on_w2=ires[1]['calls'][0]['value'])
        m1, m2 = dense.parse_rhoz(mlines[0], t0), dense.parse_rhoz(mlines[1], t0)
        if any(m1[t] != m2[t] for t in range(t0, hi + 1) if t in m1 and t in m2):
            return 'model-vs-spec', det
        return 'ok', None


# ---------------------------------------------------------------- C18
def law_instances(rng, nv):
    p = gen_formula(rng, nv, rng.choice([0, 1, 1, 2]))
    q = gen_formula(rng, nv, rng.choice([0, 1, 1]))
    a = 2 * rng.randint(0, 2)
    b = a + 2 * rng.randint(0, 2)
    c = 2 * rng.randint(0, 2)
    d = c + 2 * rng.randint(0, 2)
    return [
        ('not_eventually', ('not', ('evt', a, b, p)), ('alwt', a, b, ('not', p))),
        ('not_always', ('not', ('alwt', a, b, p)), ('evt', a, b, ('not', p))),
        ('not_once_bounded', ('not', ('oncet', a, b, p)), ('histt', a, b, ('not', p))),
        ('not_once', ('not', ('once', p)), ('hist', ('not', p))),
        ('implies', ('implies', p, q), ('or', ('not', p), q)),
        ('eventually_eventually', ('evt', a, b, ('evt', c, d, p)), ('evt', a + c, b + d, p)),
        ('once_once', ('oncet', a, b, ('oncet', c, d, p)), ('oncet', a + c, b + d, p)),
    ]


class D18(Extra):
    RULE = ('the six non-expansion laws with random dense-time operands and bounds: both sides through the dense offline monitor and, for past-time instances, '
            'through the dense online monitor (one update with the whole signal); the two results must denote the same function at every tick of the domain; '
            'plus the bounded laws (and their always / historically duals) over staircase signals of 4-14 plateaus with windows of 4-8 ticks')

    def gen(self, rng, tier):
        out = []
        n = 40 if tier == 'quick' else 700
        for _ in range(n):
            nv = rng.choice([1, 2])
            for (law, l, r) in law_instances(rng, nv):
                if fml.size(l) > 26 or not fml.fvars(l):
                    continue
                nvv = need_vars(l, nv)
                out.append({'law': law, 'lhs': l, 'rhs': r, 'nv': nvv, 'sigs': gen_sigs(rng, nvv, minn=1), 'n': 0})
        # the bounded laws over staircase signals with windows of 4-8 ticks: one window covers several plateaus, so the two
        # sliding-window implementations (max / min) each have to drop more than one dominated segment at a time
        for _ in range(n):
            p = ('pred', rng.choice(['geq', 'leq']), ('var', 0), ('const', rng.randint(-2, 3)))
            a = rng.choice([0, 0, 2, 4])
            b = a + rng.choice([4, 6, 8])
            c_, d = rng.choice([0, 2]), rng.choice([2, 4])
            law, l, r = rng.choice([
                ('not_eventually', ('not', ('evt', a, b, p)), ('alwt', a, b, ('not', p))),
                ('not_always', ('not', ('alwt', a, b, p)), ('evt', a, b, ('not', p))),
                ('not_once_bounded', ('not', ('oncet', a, b, p)), ('histt', a, b, ('not', p))),
                ('not_historically_bounded', ('not', ('histt', a, b, p)), ('oncet', a, b, ('not', p))),
                ('eventually_eventually', ('evt', a, b, ('evt', c_, d, p)), ('evt', a + c_, b + d, p)),
                ('always_always', ('alwt', a, b, ('alwt', c_, d, p)), ('alwt', a + c_, b + d, p)),
                ('once_once', ('oncet', a, b, ('oncet', c_, d, p)), ('oncet', a + c_, b + d, p))])
            out.append({'law': law, 'lhs': l, 'rhs': r, 'nv': 1, 'sigs': [dense.gen_signal(rng, maxn=7, stair=True)], 'n': 0})
        # the unbounded laws with an operand that itself contains an unbounded operator of the same family (the visitors of the unbounded
        # operators keep their running value in the visitor object: a nested one must not leave its value behind for the outer one)
        P, Q = ('pred', 'gt', ('var', 0), ('const', 0)), ('pred', 'gt', ('var', 1), ('const', 0))
        nested_past = [('and', P, ('once', Q)), ('once', P), ('hist', P), ('or', ('hist', Q), P), ('since', P, ('once', Q)), ('and', ('once', P), ('hist', Q))]
        nested_fut = [('and', P, ('ev', Q)), ('ev', P), ('alw', P), ('or', ('alw', Q), P), ('and', ('ev', P), ('alw', Q))]
        for _ in range(max(1, n // 20)):
            for q in nested_past:
                for (law, l, r) in [('not_once', ('not', ('once', q)), ('hist', ('not', q))), ('not_historically', ('not', ('hist', q)), ('once', ('not', q)))]:
                    out.append({'law': law, 'lhs': l, 'rhs': r, 'nv': 2, 'sigs': gen_sigs(rng, 2, minn=3), 'n': 0, 'nested': 1})
            for q in nested_fut:
                for (law, l, r) in [('not_eventually_unbounded', ('not', ('ev', q)), ('alw', ('not', q))), ('not_always_unbounded', ('not', ('alw', q)), ('ev', ('not', q)))]:
                    out.append({'law': law, 'lhs': l, 'rhs': r, 'nv': 2, 'sigs': gen_sigs(rng, 2, minn=3), 'n': 0, 'nested': 1})
        return out

    def features(self, c):
        if c.get('nested'):
            return ['dense', 'dense-law:' + c['law'], 'dense-law:nested-unbounded-operand']
        return ['dense', 'dense-law:' + c['law']]

    def online(self, c):
        return not fml.has_future(c['lhs']) and not fml.has_future(c['rhs'])

    def model_lines(self, c):
        t0, tmax, tmin = domain(c['lhs'], c['sigs'])
        return ['(rhoz std %s (%s) %d %d)' % (fml.to_sx(x), sigs_sx(c['sigs']), t0, max(tmax, t0) + 8) for x in (c['lhs'], c['rhs'])]

    def impl_cases(self, c):
        out = [offline_case(c['lhs'], c['sigs'], c['nv']), offline_case(c['rhs'], c['sigs'], c['nv'])]
        if self.online(c):
            # one update with the whole signal: how the input is cut is C05's subject (see KF-C05-batch-boundary)
            out += [online_case(c['lhs'], c['sigs'], c['nv']), online_case(c['rhs'], c['sigs'], c['nv'])]
        return out

    def judge(self, c, mlines, ires):
        if any(l.startswith('ERROR') for l in mlines):
            return 'model-error', mlines
        if not all(dense.dn_exact(l) for l in mlines):
            return 'dropped', None
        if fml.fvars(c['lhs']) != fml.fvars(c['rhs']):
            return 'dropped', None
        t0, tmax, tmin = domain(c['lhs'], c['sigs'])
        det = {'law': c['law'], 'lhs': 'out = ' + text(c['lhs']), 'rhs': 'out = ' + text(c['rhs']), 'signals_ticks': c['sigs'], 'tick_s': dense.SCALE}
        m1, m2 = dense.parse_rhoz(mlines[0], t0), dense.parse_rhoz(mlines[1], t0)
        if any(m1[t] != m2[t] for t in m1 if t in m2):
            return 'model-vs-spec', det
        for k in range(0, len(ires), 2):
            mon = 'dense-offline' if k == 0 else 'dense-online'
            vals = []
            for i in ires[k:k + 2]:
                if i['setup']['status'] != 'ok':
                    return 'violation', dict(det, monitor=mon, observed=i['setup'])
                cat = []
                for r in i['calls']:
                    kk, v = call_value(r)
                    if kk != 'ok':
                        return 'violation', dict(det, monitor=mon, observed=v)
                    cat += v
                vals.append(cat)
            if not vals[0] or not vals[1]:
                if vals[0] != vals[1]:
                    return 'violation', dict(det, monitor=mon, observed={'lhs': vals[0], 'rhs': vals[1]})
                continue
            lo = max(vals[0][0][0], vals[1][0][0], t0)
            ends = [max([t for t, _ in v if t != math.inf] or [lo]) for v in vals]
            hi = tmax if k == 0 else min(ends)
            d = same_on(vals[0], vals[1], lo, hi)
            if d is not None:
                return 'violation', dict(det, monitor=mon, expected='both sides equal at every tick', observed=d, lhs_value=vals[0], rhs_value=vals[1])
            if vals[0][0][0] != vals[1][0][0]:
                return 'violation', dict(det, monitor=mon, expected='both sides start at the same time', observed={'lhs_starts': vals[0][0][0], 'rhs_starts': vals[1][0][0]})
        return 'ok', None


# ---------------------------------------------------------------- C06
SEMS = ['standard', 'output-robustness', 'input-robustness', 'output-vacuity', 'input-vacuity']


class D06(Extra):
    RULE = ('dense-time formulas x 5 semantics x input/output assignments x {float variables, variables of an imported object type read through a field xa.value / xa.inner.v (every corner formula x every io assignment x 5 semantics, and a quarter of the random cases)}: dense offline evaluate() and (past-time formulas) dense online update() of the IA-STL '
            'specification classes against the tick semantics rhoZ in which every insensitive predicate contributes +-inf / 0 (pk_spec); the offline result is also compared list for list with the model of the IA visitors (deval_pk)')

    def gen(self, rng, tier):
        out = []
        n = 120 if tier == 'quick' else 2000
        P0 = ('pred', 'geq', ('var', 0), ('const', 1))
        P01 = ('pred', 'leq', ('a2', 'add', ('var', 0), ('var', 1)), ('const', 3))
        PC = ('pred', 'lt', ('const', 1), ('const', 2))
        base = [P0, P01, ('and', P0, P01), ('once', ('or', PC, P0)), ('since', P0, P01), ('alwt', 0, 2, P01), ('pred', 'eq', ('var', 0), ('var', 0)),
                ('pred', 'gt', ('a1', 'abs', ('var', 1)), ('var', 0)), ('oncet', 0, 2, P0), ('pred', 'lt', ('var', 0), ('const', 2))]
        items = [(f, 2) for f in base for _ in range(3)]
        for _ in range(n):
            nv = rng.choice([1, 2, 2, 3])
            f = gen_formula(rng, nv, rng.choice([0, 1, 1, 2, 2]), iffxor=False)
            if fml.size(f) > 20 or not fml.fvars(f):
                continue
            items.append((f, nv))
        for (f, nv) in items:
            nv = need_vars(f, nv)
            out.append({'f': f, 'nv': nv, 'sigs': gen_sigs(rng, nv, minn=1), 'io': [rng.randint(0, 1) for _ in range(nv)], 'sem': rng.choice(SEMS),
                        'ctor': rng.choice(['combined', 'split']), 'n': 0})
        # variables declared with an imported object type and read through a field (xa.value, xa.inner.v); the io declaration names the variable
        from harness.runner import gen_obj
        orng = random.Random(rng.getrandbits(64))
        for c in out:
            if orng.random() < 0.25:
                c['obj'] = gen_obj(orng, c['nv'], force=True)
        shapes = [['value', 'value'], ['value', ''], ['', 'inner.v'], ['inner.v', 'value']]
        for k, f in enumerate(base):
            sigs = gen_sigs(orng, 2, minn=1)
            for io in ([0, 0], [0, 1], [1, 0], [1, 1]):
                for sem in SEMS:
                    out.append({'f': f, 'nv': 2, 'sigs': sigs, 'io': io, 'sem': sem, 'ctor': orng.choice(['combined', 'split']), 'n': 0,
                                'obj': shapes[(k + io[0] + 2 * io[1]) % len(shapes)]})
        return out

    def online(self, c):
        return not fml.has_future(c['f'])

    def model_lines(self, c):
        t0, tmax, tmin = domain(c['f'], c['sigs'])
        io = ' '.join(str(b) for b in c['io'])
        lines = ['(rhoz (iaspec %s (%s)) %s (%s) %d %d)' % (c['sem'], io, fml.to_sx(c['f']), sigs_sx(c['sigs']), t0, max(tmax, t0) + 8),
                 '(devalpk (ia %s (%s)) %s (%s))' % (c['sem'], io, fml.to_sx(c['f']), sigs_sx(c['sigs']))]
        if self.online(c):
            # the model of the whole online monitor with the predicate kinds of the IA visitors (DenseOnlineMon.pred_update_ia): one update with everything
            used = fml.fvars(c['f'])
            env = '(' + ' '.join(dense.sig_sx(c['sigs'][i] if i in used else []) for i in range(len(c['sigs']))) + ')'
            lines.append('(onlmon (ia %s (%s)) %s (%s))' % (c['sem'], io, fml.to_sx(c['f']), env))
        return lines

    def impl_cases(self, c):
        io = {fml.VARS[i]: ('input' if c['io'][i] else 'output') for i in range(c['nv'])}
        kw = {'io': io, 'semantics': c['sem'], 'ctor': c.get('ctor', 'combined')}
        out = [offline_case(c['f'], c['sigs'], c['nv'], **kw)]
        if self.online(c):
            out.append(online_case(c['f'], c['sigs'], c['nv'], **kw))
        from harness.runner import with_object_fields
        return [with_object_fields(x, c.get('obj')) for x in out]

    def judge(self, c, mlines, ires):
        if mlines[0].startswith('ERROR'):
            return 'model-error', mlines
        if not dense.dn_exact(mlines[0]):
            return 'dropped', None
        t0, tmax, tmin = domain(c['f'], c['sigs'])
        spec = dense.parse_rhoz(mlines[0], t0)
        from harness.runner import with_object_fields
        det = {'spec': with_object_fields({'spec': 'out = ' + text(c['f']), 'vars': fml.VARS[:c['nv']]}, c.get('obj'))['spec'], 'object_fields': c.get('obj'),
               'semantics': c['sem'], 'io': c['io'], 'constructor': c.get('ctor'), 'signals_ticks': c['sigs'], 'tick_s': dense.SCALE,
               'expected': {'source': 'rhoZ with pk_spec (insensitive predicates contribute +-inf / 0), per tick from the start of the domain', 'values': [fml.val_sx(spec[t]) for t in sorted(spec)]}}
        if any(c['sigs'][i][0][0] != 0 for i in fml.fvars(c['f'])) and (fml.ops(c['f']) & (fml.TUN | fml.TBIN)):
            return 'dropped', None      # KF-C04-late-start territory
        for k, i in enumerate(ires):
            mon = 'dense-offline' if k == 0 else 'dense-online'
            if i['setup']['status'] != 'ok':
                return 'violation', dict(det, monitor=mon, observed=i['setup'])
            kk, v = call_value(i['calls'][0])
            if kk != 'ok':
                if k == 1 and self.const_binary(c['f']):
                    continue                 # KF-C05-const-binary
                return 'violation', dict(det, monitor=mon, observed=v)
            if k == 1 and len(mlines) > 2 and mlines[2].startswith('ONLMON') and mlines[2] != 'ONLMON BAD':
                exp = [[(x.rsplit(':', 1)[0] if x.rsplit(':', 1)[0] == 'inf' else int(x.rsplit(':', 1)[0])), fml.parse_val(x.rsplit(':', 1)[1])] for x in mlines[2][len('ONLMON'):].split()]
                got = [[('inf' if t == math.inf else t), x] for t, x in v]
                same = len(exp) == len(got) and all((a[0] == b[0] or (a[0] != 'inf' and b[0] != 'inf' and float(a[0]) == float(b[0]))) and float(a[1]) == float(b[1]) for a, b in zip(exp, got))
                if not same:
                    return 'violation', dict(det, monitor=mon, kind='list', expected={'source': 'DenseOnlineMon.mon_run with the IA predicate kinds: the list update() returns', 'samples_ticks': [[a, fml.val_sx(b)] for a, b in exp]},
                                             observed={'samples_ticks': got})
                self.ia_online_lists = getattr(self, 'ia_online_lists', 0) + 1
            if not v:
                if k == 1:
                    continue             # the online monitor may not have settled anything yet (C05 covers what it emits)
                return 'violation', dict(det, monitor=mon, observed='empty result')
            if k == 0 and len(mlines) > 1 and mlines[1].startswith('DEVAL'):
                # the model of the IA-STL offline visitor (DenseVisitor.deval_pk with the kinds the visitors compute, theorem
                # C06_dense_visitor): the same list, sample for sample
                got = [[t, x] for t, x in v if t != math.inf]
                if mlines[1] == 'DEVAL NONE':
                    return 'violation', dict(det, monitor=mon, kind='list', expected='DenseVisitor.deval_pk: an exception', observed=got)
                dv = [[int(x.split(':')[0]), fml.parse_val(x.split(':')[1])] for x in mlines[1].split()[1:]]
                if [[float(a), float(b)] for a, b in dv] != [[float(a), float(b)] for a, b in got]:
                    return 'violation', dict(det, monitor=mon, kind='list', expected={'source': 'DenseVisitor.deval_pk: the sample list the IA visitor builds', 'samples_ticks': [[a, fml.val_sx(b)] for a, b in dv]},
                                             observed={'samples_ticks': got})
                self.ia_lists = getattr(self, 'ia_lists', 0) + 1
            hi = tmax if k == 0 else max([t for t, _ in v if t != math.inf] or [t0])
            d = dense.compare_ticks(spec, v, max(t0, v[0][0]), hi)
            if d is not None:
                return 'violation', dict(det, monitor=mon, observed=d, observed_value=i['calls'][0]['value'])
            if v[0][0] != t0:
                return 'violation', dict(det, monitor=mon, observed={'starts_at_tick': v[0][0], 'domain_starts_at_tick': t0})
        return 'ok', None

    def const_binary(self, g):
        # was the guard of KF-C05-const-binary (a dense online binary node over two constants raised at the second update);
        # repaired in /repo (D43): such cases are judged like all others
        return False

    def features(self, c):
        obj = c.get('obj') or []
        used = [i for i in fml.fvars(c['f']) if i < len(obj) and obj[i]]
        fs = ['dense', 'dense-sem:' + c['sem']]
        if used:
            fs.append('dense:object-field-variable')
            fs += sorted(set('dense:object-field:' + ('input' if c['io'][i] else 'output') for i in used))
        return fs


# ---------------------------------------------------------------- C07
class D07(Extra):
    RULE = ('dense-time iff/xor-free formulas (predicates over arithmetic terms) x signals: at every tick of the domain a strictly positive value reported by the '
            'dense offline monitor (and, for past-time formulas, by the dense online monitor) requires satZ = true and a strictly negative one satZ = false, '
            'satZ being the Boolean dense-time semantics of DenseSat.v; 30% of the random formulas with some until turned into the sugar unless / unless[a,b], 25% of the formulas '
            'with bounded operators (and a stream of unless[a,b] whose left operand holds exactly on the window) written with explicit time units (ms / s, on both ends or one end) '
            'under the default unit s')

    @staticmethod
    def unit_text(f, seed):
        """the text of f with every bound (ticks of 0.25 s) written with explicit units, the default unit staying s"""
        import random
        from harness.c08 import dec
        rng = random.Random(seed)

        def bound(b, e):
            style = rng.choice(['both', 'both', 'end', 'begin'])
            ub, ue = rng.choice(['ms', 'ms', 's']), rng.choice(['ms', 'ms', 's'])
            if style == 'end':
                ub = ue
            if style == 'begin':
                ue = ub
            ns = int(dense.SCALE * 10 ** 9)
            return '[%s%s%s%s%s]' % (dec(b * ns, ub), ub if style != 'end' else '', rng.choice([',', ':']), dec(e * ns, ue), ue if style != 'begin' else '')
        return fml.to_text(f, bound)

    def spec_text(self, c):
        return self.unit_text(c['f'], c['units']) if c.get('units') is not None and (fml.ops(c['f']) & (fml.TUN | fml.TBIN)) else text(c['f'])

    def features(self, c):
        fs = Extra.features(self, c)
        if self.spec_text(c) != text(c['f']):
            fs.append('dense:bounds_with_explicit_units')
            if 'unlesst' in fml.ops(c['f']):
                fs.append('dense:unlesst_with_explicit_units')
        return fs

    def describe(self, c):
        return dict(Extra.describe(self, c), written_as=self.spec_text(c))

    def gen(self, rng, tier):
        out = []
        n = 150 if tier == 'quick' else 2500
        P = ('pred', 'geq', ('var', 0), ('const', 1))
        Q = ('pred', 'leq', ('var', 1), ('const', 2))
        base = [('untilt', 2, 4, P, Q), ('untilt', 0, 4, P, Q), ('until', P, Q), ('since', P, Q), ('sincet', 2, 4, P, Q), ('alwt', 0, 4, ('evt', 0, 2, P)),
                ('implies', P, ('evt', 2, 4, Q)), ('not', ('oncet', 0, 2, P)), ('hist', ('or', P, Q)), ('ev', ('and', P, ('not', Q))),
                ('unless', P, Q), ('unlesst', 2, 4, P, Q), ('unlesst', 0, 4, P, Q), ('not', ('unlesst', 0, 2, P, Q))]
        items = [(f, 2) for f in base for _ in range(3)]
        for _ in range(n):
            nv = rng.choice([1, 2, 2])
            f = gen_formula(rng, nv, rng.choice([1, 2, 2, 3]), iffxor=False)
            if rng.random() < 0.3:
                f = fml.add_unless(rng, f)       # the sugar unless / unless[a,b]
            if fml.size(f) > 22 or not fml.fvars(f):
                continue
            items.append((f, nv))
        for k, (f, nv) in enumerate(items):
            nv = need_vars(f, nv)
            c = {'f': f, 'nv': nv, 'sigs': gen_sigs(rng, nv, minn=1), 'n': 0}
            if (fml.ops(f) & (fml.TUN | fml.TBIN)) and (rng.random() < 0.25 or (k < len(base) * 3 and k % 3 == 0)):
                c['units'] = rng.randrange(10 ** 6)
            out.append(c)
        # unless[a,b] = always[0,b] or until[a,b], with explicit units: the left operand holds on [0,b] and a little longer (or only at the start),
        # the right one never / late
        X, Y = ('pred', 'geq', ('var', 0), ('const', 0)), ('pred', 'geq', ('var', 1), ('const', 0))
        for _ in range(n // 5):
            a = rng.choice([0, 0, 2, 4])
            b = a + rng.choice([2, 4])
            d = rng.choice([2, b + 2, b + 2, b + 4])
            end = max(d, b) + rng.choice([8, 12, 20])
            p = [[0, rng.randint(1, 4)], [d, -rng.randint(1, 4)], [end, -1]]
            q = [[0, -rng.randint(1, 3)], [end, -1]] if rng.random() < 0.6 else [[0, -rng.randint(1, 3)], [d + 2, rng.randint(1, 3)], [end, 1]]
            f = ('unlesst', a, b, X, Y)
            if rng.random() < 0.3:
                f = rng.choice([('not', f), ('or', f, Y), ('alwt', 0, 2, f)])
            out.append({'f': f, 'nv': 2, 'sigs': [p, q], 'n': 0, 'units': rng.randrange(10 ** 6)})
        # bounded until / since with a positive lower bound: the left operand holds on [t, t+a], dips, and the right operand
        # becomes true inside [t+a, t+b] only after the dip (mirror image for since): the verdict is 'violated'
        X, Y = ('pred', 'geq', ('var', 0), ('const', 0)), ('pred', 'geq', ('var', 1), ('const', 0))
        for _ in range(n // 5):
            a = rng.choice([2, 4])
            b = a + rng.choice([2, 4, 6])
            d = a + rng.choice([1, 2, 3])
            w = rng.choice([1, 2])
            r = d + w + rng.choice([0, 1])
            end = r + rng.choice([6, 8, 12])
            p = [[0, rng.randint(1, 4)], [d, -rng.randint(1, 4)], [d + w, rng.randint(1, 4)], [end, 1]]
            q = [[0, -rng.randint(1, 3)], [r, rng.randint(1, 4)], [r + 2, -rng.randint(1, 3)], [end, -1]]
            if rng.random() < 0.5:
                # ... and the right operand also holds once early, before t+a, while the left one still holds: the untimed until holds at t,
                # the bounded one does not (seeded change C07_A5: G[0,a] applied to the left operand instead of to the untimed until)
                q = [[0, rng.randint(1, 4)], [rng.choice([1, 2]), -rng.randint(1, 3)]] + q[1:]
            if rng.random() < 0.5:
                out.append({'f': ('untilt', a, b, X, Y), 'nv': 2, 'sigs': [p, q], 'n': 0})
            else:
                # mirrored in time around `end`
                mp = [[end - t2, v] for (t1, v), (t2, _) in zip(p, p[1:])][::-1]
                mq = [[end - t2, v] for (t1, v), (t2, _) in zip(q, q[1:])][::-1]
                mp = [[0, mp[0][1]]] + mp[1:] if mp and mp[0][0] != 0 else mp
                mq = [[0, mq[0][1]]] + mq[1:] if mq and mq[0][0] != 0 else mq
                out.append({'f': ('sincet', a, b, X, Y), 'nv': 2, 'sigs': [mp + [[end + 4, 1]], mq + [[end + 4, -1]]], 'n': 0})
        return out

    def model_lines(self, c):
        t0, tmax, tmin = domain(c['f'], c['sigs'])
        return ['(satz %s (%s) %d %d)' % (fml.to_sx(c['f']), sigs_sx(c['sigs']), t0, max(tmax, t0) + 8)]

    def impl_cases(self, c):
        kw = {'spec': 'out = ' + self.spec_text(c)}
        out = [offline_case(c['f'], c['sigs'], c['nv'], **kw)]
        if not fml.has_future(c['f']):
            out.append(online_case(c['f'], c['sigs'], c['nv'], **kw))
        return out

    def judge(self, c, mlines, ires):
        m = parse_fields(mlines[0])
        if 'ERROR' in m:
            return 'model-error', mlines
        if m['EXACT'] != ['1'] or m['DBOOL'] != ['1']:
            return 'dropped', None
        t0, tmax, tmin = domain(c['f'], c['sigs'])
        sat = {t0 + i: (b == '1') for i, b in enumerate(m['SATZ'])}
        det = {'spec': 'out = ' + self.spec_text(c), 'signals_ticks': c['sigs'], 'tick_s': dense.SCALE,
               'expected': {'source': 'satZ (DenseSat.v): Boolean dense-time satisfaction per tick from the start of the domain', 'values': [int(sat[t]) for t in sorted(sat)]}}
        for k, i in enumerate(ires):
            mon = 'dense-offline' if k == 0 else 'dense-online'
            if i['setup']['status'] != 'ok':
                return 'violation', dict(det, monitor=mon, observed=i['setup'])
            kk, v = call_value(i['calls'][0])
            if kk != 'ok':
                if k == 1 and D06().const_binary(c['f']):
                    continue
                return 'violation', dict(det, monitor=mon, observed=v)
            if not v:
                continue
            hi = tmax if k == 0 else max([t for t, _ in v if t != math.inf] or [t0])
            t = int(math.ceil(max(t0, v[0][0])))
            while t <= hi:
                x = dense.den(v, t)
                if t in sat and isinstance(x, (int, float)) and x == x:
                    if (x > 0 and not sat[t]) or (x < 0 and sat[t]):
                        return 'violation', dict(det, monitor=mon, observed={'t': t * dense.SCALE, 'reported_robustness': x, 'satisfied': sat[t]},
                                                 observed_value=i['calls'][0]['value'])
                t += 1
        return 'ok', None


# ---------------------------------------------------------------- C12
class D12(Extra):
    RULE = ('dense-time modular programs (1-3 named sub-specifications): after dense offline evaluate() and (past-time programs) dense online update(), get_value of every '
            'assertion / sub-specification name must be exactly the result of a stand-alone specification of the inlined formula on the same data, and get_value of '
            'every variable the supplied samples; online programs are also fed in two update() batches per variable (the second often starting with the '
            'last sample of the first), get_value read after each update')

    def gen(self, rng, tier):
        from harness.modular import decompose
        out = []
        n = 100 if tier == 'quick' else 1500
        for _ in range(n):
            nv = rng.choice([1, 2, 2])
            f = gen_formula(rng, nv, rng.choice([2, 2, 3]), future=(rng.random() < 0.5))
            if fml.size(f) > 24 or fml.size(f) < 4 or not fml.fvars(f):
                continue
            subs, main = decompose(rng, f, rng.choice([1, 1, 2, 3]))
            if not subs:
                continue
            nv = need_vars(f, nv)
            c = {'f': f, 'nv': nv, 'sigs': gen_sigs(rng, nv, minn=1), 'subs': [[nm, b, s_] for (nm, b, s_) in subs], 'main': main,
                 'style': rng.choice(['add_sub_spec', 'one_text']), 'fkey': fml.to_sx(f), 'n': 0}
            if not fml.has_future(f) and rng.random() < 0.6:
                # online: the data in two update() batches per variable, the second one often starting with the last sample of the first
                c['cut'] = [rng.random(), rng.random() < 0.6]
            out.append(c)
        # an operand that is a variable or a named sub-specification directly below a bounded past operator, fed in two batches
        X = ('var', 0)
        for _ in range(n // 5):
            a = rng.choice([0, 0, 2])
            body = (rng.choice(['histt', 'oncet']), a, a + rng.choice([2, 4]), ('ref', 'sp1'))
            sub = rng.choice([('a1', 'neg', X), ('pred', 'geq', X, ('const', 1)), ('once', X)])
            mainf = rng.choice([body, ('or', ('ref', 'sp1'), body), ('and', body, ('pred', 'leq', X, ('const', 3)))])
            inl = self._inline(mainf, sub)
            out.append({'f': inl, 'nv': 1, 'sigs': gen_sigs(rng, 1, minn=3), 'subs': [['sp1', sub, sub]], 'main': mainf,
                        'style': rng.choice(['add_sub_spec', 'one_text']), 'fkey': fml.to_sx(inl), 'n': 0, 'cut': [rng.random(), True]})
        return out

    @staticmethod
    def _inline(f, sub):
        if f[0] == 'ref':
            return sub
        return fml.rebuild(f, [D12._inline(x, sub) for x in fml.children(f)])

    def batches(self, c, i):
        """the samples of variable i cut into the update() batches of the case"""
        smp = dense.to_impl(c['sigs'][i])
        if not c.get('cut') or len(smp) < 2:
            return [smp]
        frac, overlap = c['cut']
        k = 1 + int(frac * (len(smp) - 1))
        k = min(max(k, 1), len(smp) - 1)
        return [smp[:k], smp[(k - 1 if overlap else k):]]

    def normalize(self, c):
        from harness import shrink
        c = dict(c)
        c['main'] = shrink.detuple(c['main'])
        c['subs'] = [[nm, shrink.detuple(b), shrink.detuple(s_)] for nm, b, s_ in c['subs']]
        return c

    def names(self, c):
        return [(nm, s_) for (nm, b, s_) in c['subs']] + [('out', c['f'])]

    def modular(self, c):
        subtexts = ['%s = %s;' % (nm, text(b)) for (nm, b, s_) in c['subs']]
        main = 'out = ' + text(c['main'])
        if c.get('style') == 'one_text':
            return {'spec': '\n'.join(subtexts) + '\n' + main + ';'}
        return {'subspecs': subtexts, 'spec': main}

    def online(self, c):
        return not fml.has_future(c['f'])

    def model_lines(self, c):
        return []

    def impl_cases(self, c):
        used = fml.fvars(c['f'])
        data = [[fml.VARS[i], dense.to_impl(c['sigs'][i])] for i in used]
        names = self.names(c)
        gv = [['get_value', nm] for (nm, _) in names] + [['get_value', fml.VARS[i]] for i in used]
        base = {'vars': fml.VARS[:c['nv']]}
        out = [dict(base, monitor='dense-offline', calls=[['evaluate', data]] + gv, **self.modular(c))]
        for (nm, s_) in names:
            su = fml.fvars(s_)
            out.append(dict(base, monitor='dense-offline', spec='out = ' + text(s_), calls=[['evaluate', [[fml.VARS[i], dense.to_impl(c['sigs'][i])] for i in su]]]))
        if self.online(c):
            nb = max(len(self.batches(c, i)) for i in used)
            bat = lambda i, ph: (self.batches(c, i) + [[]])[ph] if len(self.batches(c, i)) > ph else []
            calls = []
            for ph in range(nb):
                calls += [['update', [[fml.VARS[i], bat(i, ph)] for i in used]]] + gv
            out.append(dict(base, monitor='dense-online', calls=calls, **self.modular(c)))
            for (nm, s_) in names:
                su = fml.fvars(s_)
                out.append(dict(base, monitor='dense-online', spec='out = ' + text(s_), calls=[['update', [[fml.VARS[i], bat(i, ph)] for i in su]] for ph in range(nb)]))
        return out

    def judge(self, c, mlines, ires):
        names = self.names(c)
        used = fml.fvars(c['f'])
        det = {'modular': self.modular(c), 'signals_ticks': c['sigs'], 'tick_s': dense.SCALE}
        k = len(names)
        groups = [('dense-offline', ires[0], ires[1:1 + k])]
        if self.online(c):
            groups.append(('dense-online', ires[1 + k], ires[2 + k:2 + 2 * k]))
        for (mon, mod, alone) in groups:
            if mod['setup']['status'] != 'ok':
                return 'violation', dict(det, monitor=mon, observed=mod['setup'])
            if any(a['setup']['status'] != 'ok' or a['calls'][0]['status'] != 'ok' for a in alone):
                return 'dropped', None       # the stand-alone specification itself fails (C04/C05/C17 territory)
            nph = 1
            if mon == 'dense-online':
                nph = max(len(self.batches(c, i)) for i in used)
                if any(len(a['calls']) != nph or any(x['status'] != 'ok' for x in a['calls']) for a in alone):
                    return 'dropped', None
            stride = 1 + k + len(used)
            skip = False
            for ph in range(nph):
                u = mod['calls'][ph * stride]
                if u['status'] != 'ok':
                    if mon == 'dense-online' and D06().const_binary(c['f']):
                        skip = True
                        break
                    return 'violation', dict(det, monitor=mon, phase=ph, expected='the modular program evaluates (its stand-alone parts do)', observed=u)
                for j, (nm, s_) in enumerate(names):
                    r = mod['calls'][ph * stride + 1 + j]
                    exp = alone[j]['calls'][ph]['value']
                    if r['status'] != 'ok' or r['value'] != exp:
                        return 'violation', dict(det, monitor=mon, update=ph, name=nm, formula='out = ' + text(s_), expected={'stand-alone': exp}, observed=r)
                for j, i in enumerate(used):
                    r = mod['calls'][ph * stride + 1 + k + j]
                    if mon == 'dense-online':
                        bs = self.batches(c, i)
                        exp = json.loads(json.dumps(bs[ph] if ph < len(bs) else []))
                    else:
                        exp = json.loads(json.dumps(dense.to_impl(c['sigs'][i])))
                    if r['status'] != 'ok' or [[float(a), float(b)] for a, b in (r['value'] or [])] != exp:
                        return 'violation', dict(det, monitor=mon, update=ph, name=fml.VARS[i], expected={'supplied samples': exp}, observed=r)
            if skip:
                continue
        return 'ok', None

    def key(self, c):
        return json.dumps([c['subs'], c['main'], c['sigs']], default=str)

    def features(self, c):
        return ['dense', 'dense-nsubs_%d' % len(c['subs'])]


# ---------------------------------------------------------------- C08
UNS = {'s': 10**9, 'ms': 10**6, 'us': 10**3, 'ns': 1}


def dense_bound(rng, b, e, default_unit, style, units=None):
    """[b, e] ticks (0.25 s each) spelled in a unit notation; style: plain (numbers in the default unit) / both / begin / end /
    mixed (explicit units on both ends and the two units DIFFER, [1s:3000ms]; units = [ub, ue] forces the pair)"""
    from harness.c08 import dec
    bn, en = b * 250 * 10**6, e * 250 * 10**6            # nanoseconds
    sep = rng.choice([',', ':'])
    if style == 'mixed':
        ub, ue = units if units else rng.choice([(x, y) for x in ('s', 'ms', 'us') for y in ('s', 'ms', 'us') if x != y])
        return '[%s%s%s%s%s]' % (dec(bn, ub), ub, sep, dec(en, ue), ue)
    if style == 'plain':
        return '[%s%s%s]' % (dec(bn, default_unit), sep, dec(en, default_unit))
    ub, ue = rng.choice(['s', 'ms', 'us']), rng.choice(['s', 'ms', 'us'])
    if style == 'both':
        return '[%s%s%s%s%s]' % (dec(bn, ub), ub, sep, dec(en, ue), ue)
    if style == 'begin':
        return '[%s%s%s%s]' % (dec(bn, ub), ub, sep, dec(en, ub))
    return '[%s%s%s%s]' % (dec(bn, ue), sep, dec(en, ue), ue)


class D08(Extra):
    RULE = ('dense-time formulas with bounded operators in 4 unit notations (default unit s or ms, bounds as plain numbers or with explicit units on both / one end; '
            'time-stamps given in the default unit): dense offline evaluate() and (past-time) dense online update() must denote the same function of physical time')

    def gen(self, rng, tier):
        out = []
        n = 100 if tier == 'quick' else 1500
        P = ('pred', 'geq', ('var', 0), ('const', 1))
        base = [('oncet', 2, 4, P), ('histt', 0, 4, P), ('evt', 2, 6, P), ('alwt', 0, 2, P), ('sincet', 2, 4, P, ('not', P)), ('untilt', 2, 4, P, ('not', P))]
        items = [(f, 1) for f in base for _ in range(2)]
        for _ in range(n):
            nv = rng.choice([1, 2])
            f = gen_formula(rng, nv, rng.choice([1, 2, 2, 3]), unbounded_future=False)
            if fml.size(f) > 20 or not fml.fvars(f) or not (fml.ops(f) & (fml.TUN | fml.TBIN)):
                continue
            items.append((f, nv))
        for (f, nv) in items:
            nv = need_vars(f, nv)
            variants = []
            for (du, style) in [('s', 'plain'), ('s', rng.choice(['both', 'begin', 'end'])), ('ms', 'plain'), ('ms', rng.choice(['both', 'begin', 'end'])),
                                (rng.choice(['us', 'ms']), rng.choice(['both', 'plain']))]:
                r = __import__('random').Random(rng.randrange(1 << 30))
                variants.append({'unit': du, 'spec': 'out = ' + fml.to_text(f, lambda b, e: dense_bound(r, b, e, du, style)), 'style': style})
            out.append({'f': f, 'nv': nv, 'sigs': gen_sigs(rng, nv, minn=1), 'variants': variants, 'n': 0})
        return out

    def model_lines(self, c):
        return []

    def scaled(self, sig, unit):
        k = 10**9 // UNS[unit]
        return [[t * dense.SCALE * k, float(v)] for t, v in sig]

    def impl_cases(self, c):
        used = fml.fvars(c['f'])
        out = []
        for v in c['variants']:
            data = [[fml.VARS[i], self.scaled(c['sigs'][i], v['unit'])] for i in used]
            base = {'vars': fml.VARS[:c['nv']], 'spec': v['spec'], 'unit': v['unit']}
            out.append(dict(base, monitor='dense-offline', calls=[['evaluate', data]]))
            if not fml.has_future(c['f']):
                out.append(dict(base, monitor='dense-online', calls=[['update', data]]))
        return out

    def judge(self, c, mlines, ires):
        per = 1 if fml.has_future(c['f']) else 2
        t0, tmax, tmin = domain(c['f'], c['sigs'])
        det = {'signals_ticks': c['sigs'], 'tick_s': dense.SCALE, 'spellings': [(v['unit'], v['spec']) for v in c['variants']]}
        if any(c['sigs'][i][0][0] != 0 for i in fml.fvars(c['f'])):
            return 'dropped', None
        ref = [None] * per
        for vi, v in enumerate(c['variants']):
            k = 10**9 // UNS[v['unit']]
            for m in range(per):
                i = ires[vi * per + m]
                mon = 'dense-offline' if m == 0 else 'dense-online'
                d2 = dict(det, monitor=mon, default_unit=v['unit'], spelling=v['spec'])
                if i['setup']['status'] != 'ok':
                    return 'violation', dict(d2, observed=i['setup'])
                r = i['calls'][0]
                if r['status'] != 'ok':
                    if m == 1 and D06().const_binary(c['f']):
                        continue
                    return 'violation', dict(d2, observed=r)
                val = []
                for t, x in r['value']:
                    tt = math.inf if t == 'inf' else (-math.inf if t == '-inf' else t)
                    xx = math.inf if x == 'inf' else (-math.inf if x == '-inf' else x)
                    if x == 'nan' or t == 'nan':
                        return 'dropped', None       # inf - inf under iff/xor: outside the domain where float arithmetic is exact
                    if not isinstance(tt, (int, float)) or not isinstance(xx, (int, float)):
                        return 'violation', dict(d2, observed={'malformed sample': [t, x]})
                    val.append([tt / (dense.SCALE * k) if abs(tt) != math.inf else tt, xx])
                if ref[m] is None:
                    ref[m] = (val, v)
                    continue
                a, va = ref[m]
                if not a or not val:
                    if a != val:
                        return 'violation', dict(d2, expected={'first spelling': a}, observed=val)
                    continue
                hi = tmax if m == 0 else min(max([t for t, _ in a if t != math.inf] or [0]), max([t for t, _ in val if t != math.inf] or [0]))
                d = same_on(a, val, max(a[0][0], val[0][0], t0), hi)
                if d is not None or a[0][0] != val[0][0]:
                    return 'violation', dict(d2, expected={'spelling': va['spec'], 'default_unit': va['unit'], 'value_in_ticks': a}, observed={'value_in_ticks': val, 'differs': d})
        return 'ok', None

    def key(self, c):
        return json.dumps([[v['spec'] for v in c['variants']], c['sigs']])

    def features(self, c):
        return ['dense'] + ['dense-unit:%s/%s' % (v['unit'], v['style']) for v in c['variants']]


# ---------------------------------------------------------------- C10
class D10(Extra):
    RULE = ('dense-time online monitors: past-time (and pastified bounded-future) formulas, a history of 0-3 update() batches, reset() (also twice, also before the '
            'first update), then 1-3 continuation batches whose time-stamps start again at 0 (in some cases the first of them does not mention one of the variables: the fresh monitor fails on that, and so must the reset one); every post-reset output must equal what a freshly constructed '
            'monitor returns for the continuation; the list of every update(), before and after the reset(s), is also compared with the model of reset() (DenseOnlineReset.run_api: set_ast again)')

    def gen(self, rng, tier):
        out = []
        n = 120 if tier == 'quick' else 2000
        P = ('pred', 'geq', ('var', 0), ('const', 1))
        base = [P, ('once', P), ('hist', P), ('since', P, ('not', P)), ('oncet', 0, 4, P), ('histt', 2, 4, P), ('sincet', 0, 4, P, ('not', P)),
                ('and', ('once', P), ('pred', 'leq', ('var', 1), ('const', 2))), ('evt', 0, 4, P)]
        items = [(f, 2) for f in base]
        for _ in range(n):
            nv = rng.choice([1, 2, 2])
            f = gen_formula(rng, nv, rng.choice([1, 2, 2, 3]), unbounded_future=False, future=(rng.random() < 0.3))
            if fml.size(f) > 22 or not fml.fvars(f) or (fml.ops(f) & {'untilt'}):
                continue
            items.append((f, nv))
        for (f, nv) in items:
            nv = need_vars(f, nv)
            hist = gen_sigs(rng, nv, maxn=6, minn=1)
            post = gen_sigs(rng, nv, maxn=6, minn=1)
            out.append({'f': f, 'nv': nv, 'sigs': hist, 'post': post, 'hb': rng.choice([0, 1, 1, 2, 3]), 'pb': rng.choice([1, 1, 2, 3]),
                        'twice': rng.random() < 0.3, 'n': 0})
            # asynchronous inputs: the first update() after the reset does not mention one of the variables (a fresh monitor fails on that; so must the reset one,
            # instead of reading the value supplied before the reset)
            if len(fml.fvars(f)) >= 2 and rng.random() < 0.5:
                out.append(dict(out[-1], omit=rng.choice(sorted(fml.fvars(f))), hb=rng.choice([1, 1, 2]), pb=rng.choice([1, 2])))
        return out

    def batches(self, f, sigs, k):
        used = fml.fvars(f)
        k = max(1, min([k] + [len(sigs[i]) for i in used]))
        out = []
        for j in range(k):
            out.append({i: (len(sigs[i]) * j // k, len(sigs[i]) * (j + 1) // k) for i in used})
        return out

    def segments(self, c):
        """the update() data sets, grouped in segments with a reset() between two consecutive segments (the calls of impl_cases)"""
        f = c['f']
        used = fml.fvars(f)
        envs = lambda sigs, bs: [[sigs[i][b[i][0]:b[i][1]] if i in used else [] for i in range(len(sigs))] for b in bs]
        hist = envs(c['sigs'], self.batches(f, c['sigs'], c['hb'])) if c['hb'] > 0 else []
        post = envs(c['post'], self.batches(f, c['post'], c['pb']))
        return [hist[:1], hist[1:], post] if c.get('twice') else [hist, post]

    def model_lines(self, c):
        kind = 'pastrhoz' if fml.has_future(c['f']) else 'rhoz'
        t0, tmax, tmin = domain(c['f'], c['post'])
        # the model of reset() (DenseOnlineReset.run_api, theorems C10_dense_reset / C10_dense_reset_calls): the lists of every update()
        segs = ' '.join('(' + ' '.join('(' + ' '.join(dense.sig_sx(b) for b in env) + ')' for env in seg) + ')' for seg in self.segments(c))
        return ['(%s std %s (%s) %d %d)' % (kind, fml.to_sx(c['f']), sigs_sx(c['post']), 0, tmax + 8),
                '(%s 0 std %s (%s))' % ('pastonlmonreset' if fml.has_future(c['f']) else 'onlmonreset', fml.to_sx(c['f']), segs)]

    def inexact(self, f):
        # an operand of iff/xor may be +-inf (initial values and padding of the temporal operators): inf - inf is not a number
        return bool(fml.ops(f) & {'iff', 'xor'}) and (fml.has_future(f) or bool(fml.ops(f) & {'once', 'hist', 'since', 'oncet', 'histt', 'sincet'}))

    def impl_cases(self, c):
        f = c['f']
        used = fml.fvars(f)
        past = fml.has_future(f)

        def ups(sigs, bs):
            return [['update', [[fml.VARS[i], dense.to_impl(sigs[i][b[i][0]:b[i][1]])] for i in used]] for b in bs]
        hist = ups(c['sigs'], self.batches(f, c['sigs'], c['hb'])) if c['hb'] > 0 else []
        post = ups(c['post'], self.batches(f, c['post'], c['pb']))
        if c.get('omit') is not None:
            post[0] = ['update', [x for x in post[0][1] if x[0] != fml.VARS[c['omit']]]]
        base = {'monitor': 'dense-online', 'vars': fml.VARS[:c['nv']], 'spec': 'out = ' + text(f), 'pastify': past}
        calls = hist + [['reset']]
        if c.get('twice'):
            calls = hist[:1] + [['reset']] + hist[1:] + [['reset']]
        # what get_value() returns between the reset and the next update: as for a fresh monitor
        probes = [['get_value', nm] for nm in ['out'] + fml.VARS[:c['nv']]]
        return [dict(base, calls=calls + post), dict(base, calls=post), dict(base, calls=calls + probes), dict(base, calls=probes)]

    def judge(self, c, mlines, ires):
        if any(l.startswith('ERROR') for l in mlines):
            return 'model-error', mlines
        if not all(dense.dn_exact(l) for l in mlines[:1]):
            return 'dropped', None
        a, b = ires[:2]
        if len(ires) == 4 and ires[2]['setup']['status'] == 'ok' and ires[3]['setup']['status'] == 'ok':
            np_ = 1 + c['nv']
            oc = lambda r: [r['status'], r.get('value') if r['status'] == 'ok' else r.get('kind')]
            if all(r['status'] == 'ok' for r in ires[2]['calls'][:-np_]):
                got, exp = [oc(r) for r in ires[2]['calls'][-np_:]], [oc(r) for r in ires[3]['calls']]
                if got != exp:
                    return 'violation', {'spec': 'out = ' + text(c['f']), 'shape': 'get_value-after-reset', 'names': ['out'] + fml.VARS[:c['nv']], 'history_ticks': c['sigs'],
                                         'expected': {'fresh monitor, get_value before the first update': exp}, 'observed': {'get_value after reset()': got}}
        det = {'spec': 'out = ' + text(c['f']), 'pastified': fml.has_future(c['f']), 'history_ticks': c['sigs'], 'continuation_ticks': c['post'],
               'history_batches': c['hb'], 'reset_twice': bool(c.get('twice')), 'tick_s': dense.SCALE}
        for i in (a, b):
            if i['setup']['status'] != 'ok':
                return 'violation', dict(det, observed=i['setup'])
        def outcome(r):
            return r['value'] if r['status'] == 'ok' else ['fails', r['status'], r.get('kind')]
        if c.get('omit') is not None:
            det['omitted_in_first_update_after_reset'] = fml.VARS[c['omit']]
        else:
            for r in b['calls']:
                if r['status'] != 'ok':
                    return 'dropped', None      # the fresh monitor itself fails on complete inputs: not a reset question (C05 / C17)
        npost = len(b['calls'])
        nreset = 2 if c.get('twice') else 1
        for k, r in enumerate(a['calls']):
            if r['status'] != 'ok':
                if k >= len(a['calls']) - npost and c.get('omit') is not None:
                    continue
                if k < len(a['calls']) - npost and r.get('status') == 'rtamt' and 'reset' not in str(r):
                    # an update() of the history fails by itself (e.g. KF-C05-const-binary): not a reset question
                    hist_idx = [j for j, cc in enumerate(self.impl_cases(c)[0]['calls']) if cc[0] == 'update'][:len(a['calls']) - npost - nreset]
                    if k in hist_idx:
                        return 'dropped', None
                return 'violation', dict(det, expected='every call returns', observed=r)
        post = [outcome(r) for r in a['calls'][-npost:]]
        fresh = [outcome(r) for r in b['calls']]
        if post != fresh:
            return 'violation', dict(det, expected={'fresh monitor': fresh}, observed={'after reset': post})
        if c.get('omit') is None and len(mlines) > 1 and not self.inexact(c['f']) and all(r['status'] == 'ok' for r in a['calls']):
            # list for list against the model of reset(): every update() of the history and of the continuation
            ups = [r['value'] for r, cc in zip(a['calls'], self.impl_cases(c)[0]['calls']) if cc[0] == 'update']
            if any(v == 'nan' for u in ups for _, v in u):
                return 'ok', None
            if mlines[1] == 'ONLMONRESET BAD' or not mlines[1].startswith('ONLMONRESET'):
                return 'model-differs', dict(det, kind='list', expected={'source': 'DenseOnlineReset.run_api', 'value': mlines[1]}, observed='every call returned')
            exp = []
            for part in mlines[1][len('ONLMONRESET'):].split('|'):
                part = part.strip()
                k = int(part.split()[0][1:])
                if k:
                    for u in part[len(part.split()[0]):].split(';'):
                        exp.append([[(math.inf if x.rsplit(':', 1)[0] == 'inf' else int(x.rsplit(':', 1)[0])), float(fml.parse_val(x.rsplit(':', 1)[1]))] for x in u.split()])
            got = [dense.from_impl(u) for u in ups]
            same = len(exp) == len(got) and all(len(x) == len(y) and all(float(p[0]) == float(q[0]) and float(p[1]) == float(q[1]) for p, q in zip(x, y)) for x, y in zip(exp, got))
            if not same:
                return 'model-differs', dict(det, kind='list', expected={'source': 'DenseOnlineReset.run_api: the list of every update(), history and continuation', 'samples_ticks': [[[t_, fml.val_sx(v_)] for t_, v_ in u] for u in exp]},
                                         observed={'samples_ticks': got})
            self.reset_lists = getattr(self, 'reset_lists', 0) + 1
        return 'ok', None


# ---------------------------------------------------------------- plug-in
def extend(cls, extra, tag='dense'):
    """A subclass of the check `cls` that also runs the case stream `extra`; `tag` is the flag put into the cases of the
    stream (tested in every method), so that extensions can be chained: extend(extend(C, A()), B(), tag='b')."""
    label = 'dense time' if tag == 'dense' else tag

    class Ext(cls):
        RULE = cls.RULE + ' || ' + label + ': ' + extra.RULE

        def gen_cases(self, rng, tier):
            base = cls.gen_cases(self, rng, tier)
            return base + [dict(c, **{tag: 1}) for c in extra.gen(rng, tier)]

        def load_case(self, c):
            if c.get(tag):
                from harness import shrink
                c = dict(c)
                for k in ('f', 'lhs', 'rhs'):
                    if k in c:
                        c[k] = shrink.detuple(c[k])
                return c
            return cls.load_case(self, c)

        def normalize(self, c):
            return extra.normalize(c) if c.get(tag) else cls.normalize(self, c)

        def model_lines(self, c):
            return extra.model_lines(c) if c.get(tag) else cls.model_lines(self, c)

        def impl_cases(self, c):
            return extra.impl_cases(c) if c.get(tag) else cls.impl_cases(self, c)

        def replay_cases(self, c):
            return extra.impl_cases(c) if c.get(tag) else cls.replay_cases(self, c)

        def judge(self, c, mlines, ires):
            return extra.judge(c, mlines, ires) if c.get(tag) else cls.judge(self, c, mlines, ires)

        def signature(self, c, detail):
            return extra.signature(c, detail) if c.get(tag) else cls.signature(self, c, detail)

        def key(self, c):
            return extra.key(c) if c.get(tag) else cls.key(self, c)

        def nontrivial(self, c):
            return extra.nontrivial(c) if c.get(tag) else cls.nontrivial(self, c)

        def features(self, c):
            return extra.features(c) if c.get(tag) else cls.features(self, c)

        def describe(self, c):
            return extra.describe(c) if c.get(tag) else cls.describe(self, c)

        def extra_evidence(self):
            ev = dict(cls.extra_evidence(self))
            for k in ('ia_lists', 'ia_online_lists'):
                if getattr(extra, k, None):
                    ev['dense_' + k + '_compared_with_the_visitor_models'] = getattr(extra, k)
            if hasattr(extra, 'evidence'):
                ev.update(extra.evidence())
            return ev

    Ext.__name__ = cls.__name__
    return Ext
