# harness/unitsgen_check.py [--n N] [--seed S] OUT.v
# Differential check of the GENERATED unit conversion / sampling counter (coq/theories/UnitsGen.v, written by tools/py2coq_units.py)
# against the Python code it was translated from.  One seeded PRNG; seven streams:
#   tut    DiscreteTimeInterpreter.time_unit_transformer on a real interpreter object with a real AST (U, unit) and real Interval nodes:
#          the two ints or the class of the exception (bounds off the grid, period 0, more than sys.maxsize periods, one-sided units)
#   dense  DenseTimeInterpreter.time_unit_transformer: int / float tag; an int by value, a float r by "the model's rational lies
#          between the two midpoints around r" (= it rounds to r); OverflowError -> RTAMTException around 2^1024
#   gap    DiscreteTimeInterpreter.gap on ints, floats, Decimals, Fractions, with self.normalize set to several values
#   svc    update_sampling_violation_counter: the counter after one call from a random state
#   ssp    set_sampling_period: the three attributes (through Fraction(str(.))) or the class of the exception
#   cpb    check_pastified_bounds with a list of intervals on the AST (or no attribute)
#   online / offline: the PUBLIC API (StlDiscreteTimeSpecification: set_sampling_period, update / reset / evaluate) against the
#          fold of gen_online_update_counter / gen_online_reset_counter, resp. gen_offline_evaluate_counter, from gen_init
# The cases are written as a Coq file; `failing = []` is checked by vm_compute.
# run: PYTHONDONTWRITEBYTECODE=1 PYTHONPATH=/repo /venv/bin/python harness/unitsgen_check.py build/UnitsGenCases.v
import sys, random, math, logging
from fractions import Fraction
from decimal import Decimal
logging.disable(logging.CRITICAL)
import rtamt
from rtamt.semantics.discrete_time_interpreter import DiscreteTimeInterpreter
from rtamt.semantics.dense_time_interpreter import DenseTimeInterpreter
from rtamt.semantics.interval.interval import Interval


def opt(k, d):
    return sys.argv[sys.argv.index(k) + 1] if k in sys.argv else d


N, SEED = int(opt('--n', '6000')), int(opt('--seed', '20260926'))
OUT = [a for a in sys.argv[1:] if a.endswith('.v')][0]
rnd = random.Random(SEED)
UN = {'': 'None', 's': '(Some US)', 'ms': '(Some UMS)', 'us': '(Some UUS)', 'ns': '(Some UNS)'}
TU = {'s': 'US', 'ms': 'UMS', 'us': 'UUS', 'ns': 'UNS'}
U = {'s': 10**9, 'ms': 10**6, 'us': 10**3, 'ns': 1}
EXC = {'RTAMTException': 'RTAMTException', 'ZeroDivisionError': 'ZeroDivisionError', 'Exception': 'PyException', 'OverflowError': 'OverflowError',
       'ValueError': 'ValueError', 'KeyError': 'KeyError', 'IndexError': 'IndexError'}


def q(f):
    f = Fraction(f)
    return '(%s # %d)' % (('(%d)' % f.numerator) if f.numerator < 0 else str(f.numerator), f.denominator)


def z(n):
    return '(%d)%%Z' % n


def written(x):
    return Fraction(str(x))


def iv(b, e, bu, eu):
    return '{| ib := %s; ie := %s; ibu := %s; ieu := %s |}' % (q(b), q(e), UN[bu], UN[eu])


def the_ast(du, ivs=None):
    spec = rtamt.StlDiscreteTimeSpecification()
    spec.unit = du
    a = spec.ast
    assert a.unit == du
    if ivs is not None:
        a.pastified_intervals = ivs
    return a


def ast_term(du, ivs=()):
    return '{| ast_unit := %s; ast_pastified_intervals := [%s] |}' % (TU[du], '; '.join(ivs))


def dti_term(p, pu, tol, cnt, prev, viol, norm, du, ivs=()):
    return ('{| sampling_period := %s; sampling_period_unit := %s; sampling_tolerance := %s; update_counter := %s; previous_time := %s; '
            'sampling_violation_counter := %s; normalize := %s; dti_ast := %s |}' % (q(written(p)), TU[pu], q(written(tol)), z(cnt), q(written(prev)), z(viol), q(written(norm)), ast_term(du, ivs)))


def rand_period():
    r = rnd.random()
    if r < 0.5: return rnd.choice([1, 2, 5, 10, 100, 250, 500, 1000, 4000, 3, 7, 33, 10**6, 2 * 10**6])
    if r < 0.8: return rnd.choice([0.1, 0.5, 0.25, 33.3, 0.01, 1.5, 2.0, 0.001, 16.6, 1e-3, 2.5e3, 0.3])
    if r < 0.9: return rnd.choice([Fraction(1, 3), Fraction(5, 2), Decimal('0.1'), Decimal('12.5')])
    return rnd.choice([0, 0.0])


def rand_bound(pns):
    """a bound (Fraction) and its unit; pns = the period in ns (may be 0)"""
    u = rnd.choice(['', 's', 'ms', 'us', 'ns'])
    r = rnd.random()
    if r < 0.55 and pns:
        k = rnd.choice([0, 0, 1, 2, 3, 5, 10, 100, rnd.randint(0, 10**4)])
        uu = rnd.choice(list(U))
        return Fraction(k * pns, U[uu]), rnd.choice([uu, uu, ''])
    if r < 0.65 and pns:
        k = rnd.choice([sys.maxsize - 1, sys.maxsize, sys.maxsize + 1, 2**64, sys.maxsize - 2])
        uu = rnd.choice(list(U))
        return Fraction(k * pns, U[uu]), uu
    if r < 0.8: return Fraction(rnd.randint(0, 5000), rnd.choice([1, 1, 2, 3, 4, 10, 1000])), u
    return Fraction(str(rnd.choice([0.5, 1.5, 0.001, 33.3, 2.25, 1e3, 7]))), u


def outcome(f):
    try:
        return ('ok', f())
    except Exception as ex:
        return ('exc', type(ex).__name__)


cases = []          # (stream, Boolean Coq term)
stats = {}


def add(stream, term, kind):
    cases.append((stream, term))
    stats[(stream, kind)] = stats.get((stream, kind), 0) + 1


def exc_term(name):
    return 'Raise %s' % EXC[name]


# ---------------- tut / dense
def stream_tut(n):
    for _ in range(n):
        du, pu = rnd.choice(list(U)), rnd.choice(list(U))
        p = rand_period()
        pns = written(p) * U[pu]
        (b, bu), (e, eu) = rand_bound(pns), rand_bound(pns)
        it = DiscreteTimeInterpreter()
        it.ast = the_ast(du)
        it.sampling_period, it.sampling_period_unit = p, pu
        o = outcome(lambda: it.time_unit_transformer(Interval(b, e, bu, eu)))
        s = dti_term(p, pu, 0.1, 0, 0.0, 0, 1.0, du)
        call = 'gen_time_unit_transformer %s %s' % (s, iv(b, e, bu, eu))
        if o[0] == 'ok':
            assert type(o[1][0]) is int and type(o[1][1]) is int
            add('tut', 'zz_eqb (%s) (Ret (%s, %s))' % (call, z(o[1][0]), z(o[1][1])), 'ok')
        else:
            add('tut', 'zz_eqb (%s) (%s)' % (call, exc_term(o[1])), o[1])


def around(r):
    """the closed interval of rationals that lies between the midpoints to the neighbouring floats of r"""
    lo, hi = math.nextafter(r, -math.inf), math.nextafter(r, math.inf)
    a = (Fraction(lo) + Fraction(r)) / 2 if lo != -math.inf else Fraction(r) - 2**970
    b = (Fraction(hi) + Fraction(r)) / 2 if hi != math.inf else Fraction(r) + 2**970
    return a, b


def num_check(v):
    if type(v) is int: return '(EInt %s)' % z(v)
    assert type(v) is float
    a, b = around(v)
    return '(EFloat %s %s)' % (q(a), q(b))


def stream_dense(n):
    big = 2**1024 - 2**970
    for _ in range(n):
        du = rnd.choice(list(U))
        r = rnd.random()
        if r < 0.12:
            uu = rnd.choice(list(U))
            k = rnd.choice([big, big - 1, big + 1, big - 2**969, 2**1023, 2**1024, big * 3])
            b, bu = Fraction(0), ''
            e, eu = Fraction(k * U[du], U[uu]) + rnd.choice([0, 0, Fraction(1, 2), Fraction(-1, 3)]), uu
            if rnd.random() < 0.3: b, bu = e, eu
        else:
            (b, bu), (e, eu) = rand_bound(rnd.choice([10**9, 10**6, 250 * 10**6, 1, 333 * 10**5])), rand_bound(rnd.choice([10**9, 10**3, 7]))
        it = DenseTimeInterpreter()
        it.ast = the_ast(du)
        o = outcome(lambda: it.time_unit_transformer(Interval(b, e, bu, eu)))
        call = 'gen_dense_time_unit_transformer {| dnti_ast := %s |} %s' % (ast_term(du), iv(b, e, bu, eu))
        if o[0] == 'ok':
            kind = 'ok-' + type(o[1][0]).__name__[0] + type(o[1][1]).__name__[0]
            add('dense', 'nn_ok (%s) (Ret (%s, %s))' % (call, num_check(o[1][0]), num_check(o[1][1])), kind)
        else:
            add('dense', 'nn_ok (%s) (%s)' % (call, exc_term(o[1])), o[1])


# ---------------- gap / svc / ssp / cpb
def rand_stamp():
    r = rnd.random()
    if r < 0.3: return rnd.randint(0, 10**6)
    if r < 0.7: return rnd.choice([0.41, 0.52, 0.1, 0.2, 0.30000000000000004, 1.5, 2.25, 1e-3, 1e22, 123456.789, 0.0, 3.0]) * rnd.choice([1, 1, 2, 10])
    if r < 0.85: return Decimal(rnd.choice(['0.1', '12.25', '3', '1e3']))
    return Fraction(rnd.randint(0, 1000), rnd.choice([1, 3, 7, 8]))


def stream_gap(n):
    for _ in range(n):
        it = DiscreteTimeInterpreter()
        it.ast = the_ast('s')
        it.normalize = rnd.choice([1.0, 1.0, 1000.0, 0.001, 1e9, 1, Fraction(1, 3)])
        a, b = rand_stamp(), rand_stamp()
        o = outcome(lambda: it.gap(a, b))
        s = dti_term(1, 's', 0.1, 0, 0.0, 0, it.normalize, 's')
        call = 'gen_gap %s %s %s' % (s, q(written(a)), q(written(b)))
        assert o[0] == 'ok' and isinstance(o[1], Fraction), o
        add('gap', 'q_ok (%s) (Ret %s)' % (call, q(o[1])), 'ok')


def rand_tol():
    return rnd.choice([0.1, 0.0, 1.0, 0.05, 0.15, 0.5, 0.25, 0.78, 0.9, 0.2, 0, 1])


def stream_svc(n):
    for _ in range(n):
        du, pu = rnd.choice(list(U)), rnd.choice(list(U))
        p, tol = rand_period(), rand_tol()
        P = written(p) * U[pu] / U[du]
        T = written(tol)
        r = rnd.random()
        if r < 0.5: d = rnd.choice([P - P * T, P + P * T, P, P - P * T - Fraction(1, 10**6), P + P * T + Fraction(1, 10**9), P / 2, 2 * P, Fraction(0)])
        else: d = Fraction(rnd.randint(0, 4000), rnd.choice([1, 2, 1000, 3]))
        it = DiscreteTimeInterpreter()
        it.ast = the_ast(du)
        it.sampling_period, it.sampling_period_unit, it.sampling_tolerance = p, pu, tol
        v0 = rnd.choice([0, 0, 3, 17])
        it.sampling_violation_counter = v0
        o = outcome(lambda: it.update_sampling_violation_counter(d))
        assert o[0] == 'ok'
        s = dti_term(p, pu, tol, 0, 0.0, v0, 1.0, du)
        add('svc', 'cnt_ok (gen_update_sampling_violation_counter %s %s) %s' % (s, q(d), z(it.sampling_violation_counter)), 'inc' if it.sampling_violation_counter > v0 else 'same')


def stream_ssp(n):
    for _ in range(n):
        it = DiscreteTimeInterpreter()
        it.ast = the_ast('s')
        p, pu = rand_period(), rnd.choice(list(U))
        tol = rnd.choice([0.1, 0.0, 1.0, 1.0000000000000002, -0.0, -1e-9, 0.5, 2.0, -5e-324, 0.9999999999999999, 1, 0, 2, -1])
        o = outcome(lambda: it.set_sampling_period(p, pu, tol))
        s0 = dti_term(1, 's', 0.1, 0, 0.0, 0, 1.0, 's')
        call = 'gen_set_sampling_period %s %s %s %s' % (s0, q(written(p)), TU[pu], q(written(tol)))
        if o[0] == 'ok':
            add('ssp', 'dti_ok (%s) (Ret %s)' % (call, dti_term(it.sampling_period, it.sampling_period_unit, it.sampling_tolerance, 0, 0.0, 0, 1.0, 's')), 'ok')
        else:
            add('ssp', 'dti_ok (%s) (%s)' % (call, exc_term(o[1])), o[1])


def stream_cpb(n):
    for _ in range(n):
        du, pu = rnd.choice(list(U)), rnd.choice(list(U))
        p = rnd.choice([1, 1, 500, 0.5, 250, 0])
        pns = written(p) * U[pu]
        k = rnd.choice([None, 0, 1, 2, 3, 5])
        bs = []
        for _i in range(k or 0):
            (b, bu), (e, eu) = rand_bound(pns), rand_bound(pns)
            if rnd.random() < 0.7 and pns:
                kk = rnd.randint(0, 50)
                b, bu, e, eu = Fraction(kk * pns, U[du]), '', Fraction((kk + rnd.randint(0, 9)) * pns, U[du]), ''
            bs.append((b, e, bu, eu))
        it = DiscreteTimeInterpreter()
        it.ast = the_ast(du, None if k is None else [Interval(*x) for x in bs])
        it.sampling_period, it.sampling_period_unit = p, pu
        o = outcome(lambda: it.check_pastified_bounds())
        s = dti_term(p, pu, 0.1, 0, 0.0, 0, 1.0, du, [iv(*x) for x in bs])
        if o[0] == 'ok':
            add('cpb', 'dti_ok (gen_check_pastified_bounds %s) (Ret %s)' % (s, s), 'ok')
        else:
            add('cpb', 'dti_ok (gen_check_pastified_bounds %s) (%s)' % (s, exc_term(o[1])), o[1])


# ---------------- the public API
def rand_stamps(P, T, n, kind):
    ts = [Fraction(rnd.choice([0, 0, 3, 100]))]
    for _ in range(n - 1):
        r = rnd.random()
        if r < 0.4: g = P
        elif r < 0.6: g = P * (1 + T * rnd.choice([-1, 1]))
        elif r < 0.8: g = P * (1 + T * rnd.choice([-1, 1])) + rnd.choice([-1, 1]) * (Fraction(1, 64) if kind == 'dyadic' else Fraction(1, 100) if kind == 'dec' else 1)
        else: g = P * rnd.choice([Fraction(1, 2), 2, Fraction(3, 2), 3, Fraction(1, 4)])
        if g <= 0: g = P
        ts.append(ts[-1] + g)
    return ts


def api_settings():
    r = rnd.random()
    if r < 0.4:
        p, pu = rnd.choice([(1, 's'), (500, 'ms'), (250, 'ms'), (2, 's'), (4000, 'us'), (1, 'ms'), (8, 's')])
        du, tol, kind = rnd.choice(['s', 'ms', 'us']), rnd.choice([0.0, 0.125, 0.25, 0.5, 1.0, 0.0625]), 'dyadic'
    elif r < 0.7:
        (p, pu), du, tol = rnd.choice([((0.01, 's'), 'ms', 0.1), ((7, 's'), 'ms', 0.9), ((3, 's'), 'ms', 0.78), ((0.5, 'ms'), 'us', 0.2), ((0.02, 's'), 'ms', 0.15), ((2, 'ms'), 'us', 0.3)])
        kind = 'int'
    else:
        p, pu, du, tol = rnd.choice([(100, 'ms', 's', 0.1), (0.1, 's', 's', 0.1), (200, 'ms', 's', 0.05), (50, 'ms', 's', 0.2)])
        kind = 'dec'
    return p, pu, du, tol, kind


def conv_stamp(x, kind):
    if kind == 'int' and x.denominator == 1: return int(x)
    f = float(x)
    return f


def stream_api(n, mode):
    done = 0
    while done < n:
        p, pu, du, tol, kind = api_settings()
        P, T = written(p) * U[pu] / U[du], written(tol)
        spec = rtamt.StlDiscreteTimeSpecification()
        spec.unit = du
        spec.declare_var('x', 'float')
        spec.spec = 'out = once(x >= 1)'
        spec.set_sampling_period(p, pu, tol)
        spec.parse()
        init = ('(s0 <-- gen_init (dti_blank %s) ;; gen_set_sampling_period s0 %s %s %s)' % (ast_term(du), q(written(p)), TU[pu], q(T)))
        if mode == 'online':
            ops, exp = [], []
            m = rnd.choice([1, 2, 3, 5, 8, 13, 25])
            ts = [conv_stamp(x, kind) for x in rand_stamps(P, T, m, kind)]
            for k, t in enumerate(ts):
                if k and rnd.random() < 0.06:
                    spec.reset()
                    ops.append('OReset'); exp.append(z(spec.online_interpreter.sampling_violation_counter))
                spec.update(t, [('x', 1.0)])
                ops.append('OUpd %s' % q(written(t))); exp.append(z(spec.online_interpreter.sampling_violation_counter))
            add('online', 'online_ok %s [%s] [%s]' % (init, '; '.join(ops), '; '.join(exp)), 'viol' if spec.online_interpreter.sampling_violation_counter else 'none')
        else:
            runs, exp = [], []
            for _r in range(rnd.choice([1, 1, 2])):
                m = rnd.choice([1, 2, 3, 5, 8, 13, 25])
                ts = [conv_stamp(x, kind) for x in rand_stamps(P, T, m, kind)]
                spec.evaluate({'time': ts, 'x': [1.0] * m})
                runs.append('[%s]' % '; '.join(q(written(t)) for t in ts)); exp.append(z(spec.offline_interpreter.sampling_violation_counter))
            add('offline', 'offline_ok %s [%s] [%s]' % (init, '; '.join(runs), '; '.join(exp)), 'viol' if spec.offline_interpreter.sampling_violation_counter else 'none')
        done += 1


stream_tut(N)
stream_dense(N // 2)
stream_gap(N // 6)
stream_svc(N // 3)
stream_ssp(N // 12)
stream_cpb(N // 12)
stream_api(N // 6, 'online')
stream_api(N // 6, 'offline')

PRELUDE = r'''From Coq Require Import ZArith QArith List Bool.
From RV Require Import Offline Units PySem PyUnits UnitsGen.
Import ListNotations.
Local Open Scope units_scope.
Definition exc_eqb := pyexc_eqb.
Definition zz_eqb (a b : res (Z * Z)) : bool :=
  match a, b with Ret (x, y), Ret (x', y') => Z.eqb x x' && Z.eqb y y' | Raise e, Raise e' => exc_eqb e e' | _, _ => false end.
Inductive enum := EInt (z : Z) | EFloat (lo hi : Q).
Definition n_ok (a : pynum) (b : enum) : bool :=
  match a, b with NInt x, EInt y => Z.eqb x y | NFloat x, EFloat lo hi => Qle_bool lo x && Qle_bool x hi | _, _ => false end.
Definition nn_ok (a : res (pynum * pynum)) (b : res (enum * enum)) : bool :=
  match a, b with Ret (x, y), Ret (x', y') => n_ok x x' && n_ok y y' | Raise e, Raise e' => exc_eqb e e' | _, _ => false end.
Definition q_ok (a b : res Q) : bool := match a, b with Ret x, Ret y => Qeq_bool x y | Raise e, Raise e' => exc_eqb e e' | _, _ => false end.
Definition cnt_ok (a : res dti) (n : Z) : bool := match a with Ret s => Z.eqb (sampling_violation_counter s) n | _ => false end.
Definition tu_eqb (a b : tunit) : bool := match a, b with US, US | UMS, UMS | UUS, UUS | UNS, UNS => true | _, _ => false end.
Definition dti_eqb (a b : dti) : bool :=
  Qeq_bool (sampling_period a) (sampling_period b) && tu_eqb (sampling_period_unit a) (sampling_period_unit b)
  && Qeq_bool (sampling_tolerance a) (sampling_tolerance b) && Z.eqb (update_counter a) (update_counter b)
  && Qeq_bool (previous_time a) (previous_time b) && Z.eqb (sampling_violation_counter a) (sampling_violation_counter b)
  && Qeq_bool (normalize a) (normalize b) && tu_eqb (ast_unit (dti_ast a)) (ast_unit (dti_ast b)).
Definition dti_ok (a b : res dti) : bool := match a, b with Ret x, Ret y => dti_eqb x y | Raise e, Raise e' => exc_eqb e e' | _, _ => false end.
Inductive oop := OUpd (t : Q) | OReset.
Fixpoint online_run (s : dti) (ops : list oop) : res (list Z) :=
  match ops with
  | [] => Ret []
  | o :: r => s' <-- (match o with OUpd t => gen_online_update_counter s t | OReset => gen_online_reset_counter s end) ;;
              l <-- online_run s' r ;; Ret (sampling_violation_counter s' :: l)
  end.
Fixpoint zl_eqb (a b : list Z) : bool := match a, b with [], [] => true | x :: a, y :: b => Z.eqb x y && zl_eqb a b | _, _ => false end.
Definition online_ok (init : res dti) (ops : list oop) (exp : list Z) : bool :=
  match (s <-- init ;; online_run s ops) with Ret l => zl_eqb l exp | _ => false end.
Fixpoint offline_run (s : dti) (runs : list (list Q)) : res (list Z) :=
  match runs with
  | [] => Ret []
  | ts :: r => s' <-- gen_offline_evaluate_counter s ts ;; l <-- offline_run s' r ;; Ret (sampling_violation_counter s' :: l)
  end.
Definition offline_ok (init : res dti) (runs : list (list Q)) (exp : list Z) : bool :=
  match (s <-- init ;; offline_run s runs) with Ret l => zl_eqb l exp | _ => false end.
'''

with open(OUT, 'w') as f:
    f.write('(* GENERATED by harness/unitsgen_check.py: %d cases (seed %d) *)\n' % (len(cases), SEED))
    f.write(PRELUDE)
    CH = 50
    nch = (len(cases) + CH - 1) // CH
    for c in range(nch):
        part = list(enumerate(cases))[c * CH:(c + 1) * CH]
        f.write('Definition checks%d : list (nat * bool) := [\n' % c)
        f.write(';\n'.join('  (%d%%nat, %s)' % (k, cs[1]) for k, cs in part))
        f.write('\n].\n')
    f.write('Definition failing : list nat := map fst (filter (fun c => negb (snd c)) (%s)).\n' % ' ++ '.join('checks%d' % c for c in range(nch)))
    f.write('Eval vm_compute in failing.\nLemma unitsgen_cases_agree : failing = []. Proof. vm_compute. reflexivity. Qed.\n')
with open(OUT + '.index', 'w') as f:
    for k, c in enumerate(cases): f.write('%d\t%s\t%s\n' % (k, c[0], c[1]))
print('cases %d' % len(cases))
for k in sorted(stats): print('  %-8s %-20s %d' % (k[0], k[1], stats[k]))
