# forest.py — case stream of C12 (and C09): dense-time ONLINE specifications with SEVERAL assertions against the model
# DenseOnlineForest.forest_run / forest_run_out (driver command `onlforest`; theorems C12_dense_get_online,
# C12_dense_get_sub_online, C12_dense_raises, C09_dense_online): what every update() returns, get_value(name) of every
# assertion and get_value(printed text) of sub-formula nodes after every update, and the update that raises.
import json
import math
from harness import fml, dense, shrink
from harness.densex import Extra, gen_formula, gen_sigs, need_vars
from harness.modular import decompose

SQ = [-4, -1, 0, 1, 4, 9]
TIMED = {'oncet', 'histt', 'sincet'}
DIFF = {'iff', 'xor', 'a2'}


def inline(f, env):
    if f[0] == 'ref':
        return env[f[1]]
    return fml.rebuild(f, [inline(c, env) for c in fml.children(f)])


def forest_of(prog):
    env, F = {}, []
    for nm, b in prog:
        env[nm] = inline(b, env)
        F.append(env[nm])
    return F


def at_path(f, path):
    for k in path:
        f = fml.children(f)[k]
    return f


def paths(f, pre=()):
    out = [list(pre)]
    for k, c in enumerate(fml.children(f)):
        out += paths(c, pre + (k,))
    return out


def hidden_nan(f):
    """a difference (iff, xor, binary arithmetic) over a bounded past operator: the padding values +-inf may meet (inf - inf)"""
    if f[0] in DIFF and any(s[0] in TIMED for s in fml.subformulas(f)):
        return True
    return any(hidden_nan(c) for c in fml.children(f))


def splits(n, k, rng):
    cuts = sorted(rng.randint(0, n) for _ in range(k - 1))
    b = [0] + cuts + [n]
    return [[b[i], b[i + 1]] for i in range(k)]


def partial(rng, f):
    """put a sqrt / ln somewhere (it raises on some values)"""
    X = ('var', 0)
    t = rng.choice([('a1', 'sqrt', X), ('a1', 'sqrt', ('a1', 'abs', X)), ('a1', 'ln', ('const', 1)), ('a1', 'ln', ('a2', 'sub', X, X)),
                    ('a1', 'sqrt', ('a2', 'mul', X, X))])
    p = ('pred', rng.choice(['geq', 'leq']), t, ('const', rng.randint(0, 2)))
    return rng.choice([p, ('once', p), ('and', f, p), ('or', p, f), ('since', f, p), ('oncet', 0, 2, p)])


def gen_case(rng):
    style = rng.choice(['decomp', 'decomp', 'decomp', 'indep', 'indep', 'mixed', 'dup', 'partial'])
    nv = rng.choice([1, 2, 2])
    prog = []          # [[name, body-with-refs]]
    if style in ('decomp', 'mixed', 'partial'):
        while True:
            f = gen_formula(rng, nv, rng.choice([2, 2, 3]), future=False)
            if 4 <= fml.size(f) <= 24:
                break
        if style == 'partial':
            f = partial(rng, f)
        subs, main = decompose(rng, f, rng.choice([1, 1, 2, 3]))
        prog = [[nm, b] for (nm, b, s_) in subs]
        if style == 'mixed':
            # an assertion nobody uses, before, between or after the others; possibly one that raises
            g = gen_formula(rng, nv, rng.choice([1, 2]), future=False)
            if rng.random() < 0.3:
                g = partial(rng, g)
            prog.insert(rng.randint(0, len(prog)), ['free1', g])
        prog.append(['out', main])
    elif style == 'indep':
        k = rng.choice([2, 2, 3])
        for i in range(k):
            g = gen_formula(rng, nv, rng.choice([1, 2, 2]), future=False)
            if i > 0 and rng.random() < 0.4:
                # an earlier assertion used by name, several times
                r = ('ref', prog[rng.randrange(len(prog))][0])
                g = rng.choice([('and', r, g), ('since', r, r), ('or', g, ('once', r)), ('oncet', 0, 2, r), r, ('a2', 'add', r, r)])
            prog.append(['as%d' % i if (i < k - 1 or rng.random() < 0.5) else 'out', g])
    else:
        # the same text in two assertions (two nodes, one name), neither referring to the other
        g = gen_formula(rng, nv, rng.choice([1, 2]), future=False)
        h = gen_formula(rng, nv, 1, future=False)
        prog = [['aa', g], ['bb', rng.choice([g, ('and', g, h), ('since', h, g)])], ['out', rng.choice([('ref', 'aa'), ('or', ('ref', 'bb'), g), ('once', g)])]]
    F = forest_of(prog)
    if any(hidden_nan(f) for f in F):
        return None
    allf = [s for f in F for s in fml.subformulas(f)]
    nv = max([nv] + [need_vars(f, nv) for f in F])
    used = sorted({v for f in F for v in fml.fvars(f)})
    if not used:
        return None
    sigs = gen_sigs(rng, nv, maxn=6, minn=1)
    if any(s[0] == 'a1' and s[1] in ('sqrt', 'ln') for s in allf):
        sigs[0] = [[t, rng.choice(SQ if rng.random() < 0.5 else [0, 1, 4, 9])] for t, _ in sigs[0]]
    K = rng.choice([1, 2, 2, 3, 4])
    cut = {i: splits(len(sigs[i]), K, rng) for i in used}
    overlap = rng.random() < 0.4
    batches = []       # per update: {str(var index): samples in ticks}
    for i in used:
        if cut[i][0][1] == 0 and rng.random() < 0.7:
            # most first batches are not empty
            cut[i] = [[0, 1]] + [[max(a, 1), max(b, 1)] for a, b in cut[i][1:]]
    for j in range(K):
        env_j = {}
        for i in used:
            lo, hi = cut[i][j]
            smp = sigs[i][lo:hi]
            if overlap and lo > 0 and smp and rng.random() < 0.6:
                smp = [sigs[i][lo - 1]] + smp          # the batch starts with a copy of the last sample already sent
            env_j[str(i)] = [list(x) for x in smp]
        batches.append(env_j)
    # up to 6 sub-formula nodes whose value is read through get_value(node.name)
    allp = [[j, p] for j, f in enumerate(F) for p in paths(f)]
    rng.shuffle(allp)
    return {'style': style, 'nv': nv, 'prog': prog, 'batches': batches, 'qpaths': allp[:6],
            'text_style': rng.choice(['add_sub_spec', 'one_text']), 'n': max(len(s) for s in sigs)}


def canon(value):
    """implementation list (canonical JSON of impl.py) -> 'tick:value ...' as the driver prints it; None if not representable"""
    out = []
    for t, v in value:
        if t == 'nan' or v == 'nan':
            return None
        if t == 'inf':
            tt = 'inf'
        else:
            tt = t / dense.SCALE
            if tt != int(tt):
                return None
            tt = int(tt)
        if v in ('inf', '-inf'):
            vv = v
        else:
            if float(v) != int(v):
                return None
            vv = int(v)
        out.append('%s:%s' % (tt, vv))
    return ' '.join(out)


def norm(s):
    return ' '.join(s.split())


class DForest(Extra):
    RULE = ('dense-time ONLINE specifications with several assertions (1-3 nested / repeated sub-specifications by add_sub_spec or in one text; independent '
            'assertions that use earlier ones by name several times; assertions nobody uses, some raising; the same text in two assertions; sqrt / ln that '
            'raise), fed in 1-4 update() calls (empty batches, repeated boundary samples): the list every update() returns, get_value(name) of every assertion '
            'and get_value(printed text) of up to 6 sub-formula nodes after every update, and the update that raises, must be exactly those of the model '
            'DenseOnlineForest.forest_run / forest_run_out (theorems C12_dense_get_online, C12_dense_get_sub_online, C12_dense_raises, C09_dense_online)')

    def __init__(self):
        self.stats = {'cases': 0, 'updates_compared': 0, 'get_value_reads_compared': 0, 'runs_in_which_an_update_raises': 0}

    def gen(self, rng, tier):
        n = 150 if tier == 'quick' else 3000
        out = []
        while len(out) < n:
            c = gen_case(rng)
            if c is not None:
                out.append(c)
        return out

    def normalize(self, c):
        c = dict(c)
        c['prog'] = [[nm, shrink.detuple(b)] for nm, b in c['prog']]
        return c

    def forest(self, c):
        return forest_of(c['prog'])

    def queries(self, c):
        F = self.forest(c)
        return [at_path(F[j], p) for j, p in c['qpaths']]

    def model_lines(self, c):
        F, Q = self.forest(c), self.queries(c)
        fs = ' '.join(fml.to_sx(f) for f in F)
        qs = ' '.join(fml.to_sx(q) for q in Q)
        envs = ['(' + ' '.join(dense.sig_sx(env_j.get(str(i), [])) for i in range(c['nv'])) + ')' for env_j in c['batches']]
        return ['(onlforest std (%s) (%s) (%s))' % (fs, qs, ' '.join(envs[:k])) for k in range(1, len(envs) + 1)]

    def modular(self, c):
        texts = ['%s = %s' % (nm, dense.dense_formula_text(b)) for nm, b in c['prog']]
        if c.get('text_style') == 'add_sub_spec':
            return {'subspecs': [t + ';' for t in texts[:-1]], 'spec': texts[-1]}
        return {'spec': ';\n'.join(texts) + ';'}

    def used(self, c):
        return sorted({v for f in self.forest(c) for v in fml.fvars(f)})

    def impl_cases(self, c):
        used = self.used(c)
        reads = [['get_value', nm] for nm, _ in c['prog']] + [['get_node', j, list(p)] for j, p in c['qpaths']]
        calls = []
        for env_j in c['batches']:
            calls += [['update', [[fml.VARS[i], dense.to_impl(env_j.get(str(i), []))] for i in used]]] + reads
        return [dict({'monitor': 'dense-online', 'vars': fml.VARS[:c['nv']], 'calls': calls}, **self.modular(c))]

    def judge(self, c, mlines, ires):
        if any(l.startswith('ERROR') for l in mlines):
            return 'model-error', mlines
        r = ires[0]
        K, np_, nq = len(c['batches']), len(c['prog']), len(c['qpaths'])
        det = {'modular': self.modular(c), 'batches_ticks': c['batches'], 'tick_s': dense.SCALE}
        if r['setup']['status'] != 'ok':
            return 'violation', dict(det, shape='forest:setup', expected='the specification parses', observed=r['setup'])
        stride = 1 + np_ + nq
        ifail = next((j for j in range(K) if r['calls'][j * stride]['status'] != 'ok'), None)
        mfail = next((j for j in range(K) if mlines[j] == 'ONLFOREST BAD'), None)
        good = K if ifail is None else ifail          # the updates whose results are compared
        # values the model cannot represent (nan, non-integers): the case says nothing
        obs = []
        for j in range(good):
            row = r['calls'][j * stride:(j + 1) * stride]
            if any(x['status'] != 'ok' for x in row):
                k = next(i for i, x in enumerate(row) if x['status'] != 'ok')
                return 'violation', dict(det, shape='forest:read', update=j, call=self.impl_cases(c)[0]['calls'][j * stride + k], expected='get_value returns after an update that returned',
                                         observed=row[k])
            vals = [canon(x['value'] or []) for x in row]
            if any(v is None for v in vals):
                return 'dropped', None
            obs.append(vals)
        if ifail != mfail:
            return 'model-differs', dict(det, shape='forest:raises', expected={'source': 'DenseOnlineForest.forest_run (C12_dense_raises)', 'update_that_raises': mfail},
                                     observed={'update_that_raises': ifail, 'outcome': None if ifail is None else r['calls'][ifail * stride]})
        self.stats['cases'] += 1
        if ifail is not None:
            self.stats['runs_in_which_an_update_raises'] += 1
        if good == 0:
            return 'ok', None
        ml = mlines[good - 1]
        head, rest = ml[len('ONLFOREST'):].split(' | GET')
        get, sub = rest.split(' | SUB')
        rets = [norm(x) for x in head.split(';')]
        gets = [[norm(y) for y in x.split(',')] for x in get.split(';')]
        subs = [[norm(y) for y in x.split(',')] for x in sub.split(';')] if nq else [[] for _ in range(good)]
        for j in range(good):
            exp = [rets[j]] + gets[j] + subs[j]
            if exp != obs[j]:
                k = next(i for i in range(stride) if i >= len(exp) or exp[i] != obs[j][i])
                what = 'update()' if k == 0 else ('get_value(%s)' % c['prog'][k - 1][0] if k <= np_ else
                                                  'get_value(name of the node %s of assertion %d: %s)' % (c['qpaths'][k - 1 - np_][1], c['qpaths'][k - 1 - np_][0],
                                                                                                          dense.dense_formula_text(self.queries(c)[k - 1 - np_])))
                return 'model-differs', dict(det, shape='forest:value', update=j, what=what,
                                         expected={'source': 'DenseOnlineForest (C12_dense_get_online / C09_dense_online), ticks', 'value': exp[k] if k < len(exp) else None},
                                         observed={'ticks': obs[j][k]})
            self.stats['updates_compared'] += 1
            self.stats['get_value_reads_compared'] += np_ + nq
        return 'ok', None

    def signature(self, c, detail):
        ops = sorted(set().union(*[fml.ops(f) for f in self.forest(c)]))
        sig = {'ops': ops, 'monitor': 'dense-online', 'shape': 'forest'}
        if isinstance(detail, dict) and detail.get('shape'):
            sig['shape'] = detail['shape']
        return sig

    def key(self, c):
        return json.dumps([c['prog'], c['batches'], c['qpaths']], default=str)

    def nontrivial(self, c):
        return len(c['prog']) >= 2

    def features(self, c):
        return ['forest', 'forest:style_' + c.get('style', ''), 'forest:assertions_%d' % len(c['prog']), 'forest:updates_%d' % len(c['batches']),
                'forest:' + c.get('text_style', '')]

    def describe(self, c):
        return {'modular': self.modular(c), 'batches_ticks': c['batches'], 'node_reads': c['qpaths']}

    def evidence(self):
        return {'forest_stream': dict(self.stats)}
