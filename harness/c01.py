# c01.py — C01: discrete-time offline evaluate() = rho, one pair per sample,
# independent of the time column.
import json
from harness import fml
from harness.common import parse_fields
from harness.runner import Check, offline_case, time_column, need_vars, expect_vals


def feature_cover():
    """every operator x every boundary situation, one case each"""
    P = ('pred', 'geq', ('var', 0), ('const', 1))
    Q = ('pred', 'leq', ('var', 1), ('const', 2))
    out = []
    unary = ['not', 'rise', 'fall', 'prev', 'sprev', 'next', 'snext', 'once', 'hist', 'ev', 'alw']
    binary = ['and', 'or', 'implies', 'iff', 'xor', 'since', 'until']
    for n in (1, 2, 3, 7):
        for op in unary:
            out.append(((op, P), n))
            out.append((('not', (op, ('not', P))), n))
        for op in binary:
            out.append(((op, P, Q), n))
        for op in ('oncet', 'histt', 'evt', 'alwt'):
            for (b, e) in ((0, 0), (0, 2), (1, 1), (1, 3), (2, 2), (0, n), (n, n + 1), (n - 1 if n > 1 else 0, n), (3, 9)):
                out.append(((op, b, e, P), n))
        for op in ('sincet', 'untilt'):
            for (b, e) in ((0, 0), (0, 2), (1, 1), (1, 3), (0, n), (n, n + 1), (2, 5)):
                out.append(((op, b, e, P, Q), n))
        for c in ('leq', 'lt', 'geq', 'gt', 'eq', 'neq'):
            out.append((('pred', c, ('var', 0), ('var', 1)), n))
        for o in ('abs', 'neg'):
            out.append((('pred', 'geq', ('a1', o, ('var', 0)), ('const', 2)), n))
        out.append((('pred', 'geq', ('a1', 'sqrt', ('a2', 'mul', ('var', 0), ('var', 0))), ('const', 2)), n))
        out.append((('pred', 'geq', ('a1', 'exp', ('a2', 'sub', ('var', 0), ('var', 0))), ('const', 1)), n))
        out.append((('pred', 'leq', ('a1', 'ln', ('const', 1)), ('var', 0)), n))
        out.append((('pred', 'leq', ('a2', 'log', ('const', 1), ('const', 2)), ('var', 0)), n))
        for o in ('add', 'sub', 'mul'):
            out.append((('pred', 'geq', ('a2', o, ('var', 0), ('var', 1)), ('const', 2)), n))
        out.append((('pred', 'geq', ('a2', 'div', ('a2', 'mul', ('var', 0), ('const', 4)), ('const', 2)), ('const', 2)), n))
        out.append((('pred', 'geq', ('a2', 'pow', ('var', 0), ('const', 2)), ('const', 2)), n))
        # variable used below a padding future operator and again elsewhere (aliasing)
        out.append((('and', ('alwt', 0, n + 1, ('var', 0)), ('pred', 'geq', ('a2', 'add', ('var', 0), ('var', 1)), ('const', 0))), n))
        out.append((('or', ('evt', 1, n + 2, ('var', 0)), ('pred', 'geq', ('a2', 'add', ('var', 0), ('var', 1)), ('const', 0))), n))
    return out


class C01(Check):
    PID = 'C01'
    RULE = ('feature cover (every operator x boundary situation x n in {1,2,3,7}) then seeded random formulas of the full grammar; '
            '15% of the cases with bounded operators are written with explicit time units, another default unit and a sampling period given in another unit; non-trivial = formula with >= 3 nodes whose arithmetic is exact and for which impl, model and rho were compared on every sample; '
            'distinct by (formula, data, time column)')

    def gen_cases(self, rng, tier):
        items = [(f, n, 2, 0) for (f, n) in feature_cover()]
        nrand = 700 if tier == 'quick' else 12000
        for i in range(nrand):
            nv = rng.choice([1, 2, 2, 3, 4])
            d = rng.choice([1, 2, 2, 3, 3, 4] if tier == 'quick' else [1, 2, 3, 3, 4, 4, 5, 6])
            g = fml.Gen(rng, nvars=nv, maxb=rng.choice([2, 3, 5]), fancy_arith=(rng.random() < 0.3))
            f = g.formula(d)
            if rng.random() < 0.3:
                f = fml.add_unless(rng, f)       # the sugar unless / unless[a,b]
            if fml.size(f) > 60:
                continue
            n = rng.choice([1, 1, 2, 2, 3, 4, 5, 6, 8, 10, 15, 25, 40])
            items.append((f, n, nv, rng.randrange(4)))
        cases = []
        for (f, n, nv, tk) in items:
            nv = need_vars(f, nv)
            c = {'f': f, 'n': n, 'nv': nv, 'cols': fml.gen_trace(rng, nv, n), 'times': time_column(rng, n, tk)}
            if rng.random() < 0.15:
                from harness.c08 import spelling
                sp = spelling(rng, f)
                if sp:
                    c['spell'] = sp
            cases.append(c)
        for (f, cols) in fml.arith_boundary_cases():
            cases.append({'f': f, 'n': len(cols[0]), 'nv': 2, 'cols': cols, 'times': list(range(len(cols[0])))})
        return cases

    def normalize(self, c):
        if 'spell' in c and fml.to_sx(c['f']) != c['spell'].get('fkey'):
            c = {k: v for k, v in c.items() if k != 'spell'}
        return c

    def model_lines(self, c):
        return ['(off std %s %d %s)' % (fml.to_sx(c['f']), c['n'], fml.trace_sx(c['cols']))]

    def impl_cases(self, c):
        return [offline_case(c['f'], c['cols'], c['times'], c['nv'], **c.get('spell', {}))]

    def judge(self, c, mlines, ires):
        m = parse_fields(mlines[0])
        if 'ERROR' in m:
            return 'model-error', m['ERROR']
        if m['EXACT'] != ['1']:
            return 'dropped', None
        rho = [fml.parse_val(x) for x in m['RHO']]
        off = [fml.parse_val(x) for x in m['OFF']]
        exp = json.loads(json.dumps([[t, v] for t, v in zip(c['times'], expect_vals(rho))]))
        det = {'expected': {'source': 'rho(phi,w,t) of Rho.v, one [time, value] pair per sample', 'values': exp}, 'model': m['OFF']}
        i = ires[0]
        if i['setup']['status'] != 'ok':
            return 'violation', dict(det, observed=i['setup'])
        r = i['calls'][0]
        if r['status'] != 'ok':
            return 'violation', dict(det, observed=r)
        obs = json.loads(json.dumps(r['value']))
        if obs != exp:
            return 'violation', dict(det, observed=obs)
        if off != rho:
            return 'model-vs-spec', {'rho': m['RHO'], 'off': m['OFF']}
        return 'ok', None

    def describe(self, c):
        return {'spec': 'out = ' + fml.to_text(c['f']), 'n': c['n'], 'data': c['cols'], 'time': c['times']}


def main(tier, seed, replay=None):
    return C01().main(tier, seed, replay)
