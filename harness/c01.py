# c01.py — C01: discrete-time offline evaluate() = rho, one pair per sample,
# independent of the time column.
import json
import random
from harness import fml
from harness.common import Model, Report, run_impl, parse_fields, obligations, ensure_build, load_known, broken_obligation
from harness import shrink

PID = 'C01'


def mk_case(f, cols, times, nvars):
    data = {'time': list(times)}
    for i in range(nvars):
        data[fml.VARS[i]] = list(cols[i])
    return {'monitor': 'discrete-offline', 'vars': fml.VARS[:nvars], 'spec': 'out = ' + fml.to_text(f),
            'calls': [['evaluate', data]]}


def time_column(rng, n, kind):
    if kind == 0:
        return list(range(n))
    if kind == 1:
        t, out = 0, []
        for _ in range(n):
            out.append(t)
            t += rng.choice([1, 1, 2, 5, 0.5, 0.25])
        return out
    if kind == 2:
        return [100 - 3 * i for i in range(n)]
    return [rng.randint(-5, 5) for _ in range(n)]


def feature_cover(rng):
    """every operator x every boundary situation, one case each"""
    P = ('pred', 'geq', ('var', 0), ('const', 1))
    Q = ('pred', 'leq', ('var', 1), ('const', 2))
    out = []
    unary = ['not', 'rise', 'fall', 'prev', 'sprev', 'next', 'snext', 'once', 'hist', 'ev', 'alw']
    binary = ['and', 'or', 'implies', 'iff', 'xor', 'since', 'until']
    for n in (1, 2, 3, 7):
        for op in unary:
            out.append(((op, P), n))
            out.append((('not', (op, ('not', P))), n))
        for op in binary:
            out.append(((op, P, Q), n))
        for op in ('oncet', 'histt', 'evt', 'alwt'):
            for (b, e) in ((0, 0), (0, 2), (1, 1), (1, 3), (2, 2), (0, n), (n, n + 1), (n - 1 if n > 1 else 0, n), (3, 9)):
                out.append(((op, b, e, P), n))
        for op in ('sincet', 'untilt'):
            for (b, e) in ((0, 0), (0, 2), (1, 1), (1, 3), (0, n), (n, n + 1), (2, 5)):
                out.append(((op, b, e, P, Q), n))
        for c in ('leq', 'lt', 'geq', 'gt', 'eq', 'neq'):
            out.append((('pred', c, ('var', 0), ('var', 1)), n))
        for o in ('abs', 'neg'):
            out.append((('pred', 'geq', ('a1', o, ('var', 0)), ('const', 2)), n))
        out.append((('pred', 'geq', ('a1', 'sqrt', ('a2', 'mul', ('var', 0), ('var', 0))), ('const', 2)), n))
        out.append((('pred', 'geq', ('a1', 'exp', ('a2', 'sub', ('var', 0), ('var', 0))), ('const', 1)), n))
        out.append((('pred', 'leq', ('a1', 'ln', ('const', 1)), ('var', 0)), n))
        out.append((('pred', 'leq', ('a2', 'log', ('const', 1), ('const', 2)), ('var', 0)), n))
        for o in ('add', 'sub', 'mul'):
            out.append((('pred', 'geq', ('a2', o, ('var', 0), ('var', 1)), ('const', 2)), n))
        out.append((('pred', 'geq', ('a2', 'div', ('a2', 'mul', ('var', 0), ('const', 4)), ('const', 2)), ('const', 2)), n))
        out.append((('pred', 'geq', ('a2', 'pow', ('var', 0), ('const', 2)), ('const', 2)), n))
        # variable used below a padding future operator and again elsewhere (aliasing)
        out.append((('and', ('alwt', 0, n + 1, ('var', 0)), ('pred', 'geq', ('a2', 'add', ('var', 0), ('var', 1)), ('const', 0))), n))
        out.append((('or', ('evt', 1, n + 2, ('var', 0)), ('pred', 'geq', ('a2', 'add', ('var', 0), ('var', 1)), ('const', 0))), n))
    return out


def gen_cases(rng, tier):
    items = []
    for (f, n) in feature_cover(rng):
        items.append((f, n, 2, 0))
    nrand = 700 if tier == 'quick' else 12000
    for i in range(nrand):
        nv = rng.choice([1, 2, 2, 3, 4])
        d = rng.choice([1, 2, 2, 3, 3, 4] if tier == 'quick' else [1, 2, 3, 3, 4, 4, 5, 6])
        g = fml.Gen(rng, nvars=nv, maxb=rng.choice([2, 3, 5]), fancy_arith=(rng.random() < 0.3))
        f = g.formula(d)
        if fml.size(f) > 60:
            continue
        n = rng.choice([1, 1, 2, 2, 3, 4, 5, 6, 8, 10, 15, 25, 40])
        items.append((f, n, nv, rng.randrange(4)))
    cases = []
    for (f, n, nv, tk) in items:
        nv = max(nv, (max(fml.fvars(f)) + 1) if fml.fvars(f) else 1)
        cols = fml.gen_trace(rng, nv, n)
        cases.append({'f': f, 'n': n, 'nv': nv, 'cols': cols, 'times': time_column(rng, n, tk)})
    return cases


def model_line(c):
    return '(off std %s %d %s)' % (fml.to_sx(c['f']), c['n'], fml.trace_sx(c['cols']))


def judge(c, mres, ires):
    """returns (verdict, detail). verdict in ok / dropped / violation / mismatch"""
    m = parse_fields(mres)
    if 'ERROR' in m:
        return 'model-error', m['ERROR']
    if m['EXACT'] != ['1']:
        return 'dropped', None
    rho = [fml.parse_val(x) for x in m['RHO']]
    off = [fml.parse_val(x) for x in m['OFF']]
    exp = [[t, v] for t, v in zip(c['times'], rho)]
    exp = json.loads(json.dumps([[t, ('inf' if v == float('inf') else '-inf' if v == -float('inf') else v)] for t, v in exp]))
    if ires['setup']['status'] != 'ok':
        return 'violation', {'expected': exp, 'observed': ires['setup'], 'model': m['OFF']}
    r = ires['calls'][0]
    if r['status'] != 'ok':
        return 'violation', {'expected': exp, 'observed': r, 'model': m['OFF']}
    obs = json.loads(json.dumps(r['value']))
    if obs != exp:
        return 'violation', {'expected': exp, 'observed': obs, 'model': m['OFF']}
    if off != rho:
        return 'model-vs-spec', {'rho': m['RHO'], 'off': m['OFF']}
    return 'ok', None


def still_fails(model, c):
    case = mk_case(c['f'], c['cols'], c['times'], c['nv'])
    ires = run_impl([case])[0]
    v, d = judge(c, model.one(model_line(c)), ires)
    return v == 'violation', d


def signature(c, detail):
    """classify a (shrunk) failing case for the known-findings table"""
    ops = fml.ops(c['f'])
    sig = {'ops': sorted(ops), 'n': c['n']}
    if isinstance(detail.get('observed'), dict):
        sig['status'] = detail['observed'].get('status')
        sig['kind'] = detail['observed'].get('kind')
    return sig


def main(tier, seed, replay=None):
    rep = Report(PID, tier, seed)
    ok, log, _ = ensure_build()
    obl = obligations(PID)
    if not ok or not obl['ok']:
        obl['log'] = (log[-1500:] if not ok else '') + obl['log']
        obl['ok'] = False
    rng = random.Random(seed)
    model = Model()
    if replay:
        r = json.load(open(replay))
        cs = [r['c']] if 'c' in r else []
        cs = [dict(c, f=shrink.detuple(c['f'])) for c in cs]
    else:
        cs = gen_cases(rng, tier)
    mres = model.batch([model_line(c) for c in cs])
    ires = run_impl([mk_case(c['f'], c['cols'], c['times'], c['nv']) for c in cs])
    stats = {'ok': 0, 'dropped': 0, 'violation': 0, 'model-error': 0, 'model-vs-spec': 0}
    hist = {}
    distinct = set()
    failing = []
    for c, m, i in zip(cs, mres, ires):
        v, d = judge(c, m, i)
        stats[v] += 1
        if v == 'ok':
            key = (fml.to_sx(c['f']), c['n'])
            if fml.size(c['f']) >= 3 and key not in distinct:
                distinct.add(key)
            for o in fml.ops(c['f']):
                hist[o] = hist.get(o, 0) + 1
        elif v in ('violation', 'model-vs-spec', 'model-error'):
            failing.append((c, v, d))
    known = load_known(PID)
    reported = set()
    # shrink and report (at most a handful of distinct shrunk cases)
    for (c, v, d) in failing[:40]:
        if v != 'violation':
            rep.violation({'kind': 'broken-machinery', 'what': v, 'c': c, 'detail': d}, suffix='no-failing-input-found')
            continue
        c2, d2 = shrink.shrink_case(c, lambda x: still_fails(model, x))
        if d2 is None:
            d2 = d
        key = json.dumps([fml.to_sx(c2['f']), c2['n']])
        if key in reported:
            continue
        reported.add(key)
        sig = signature(c2, d2)
        hit = None
        for k in known:
            if shrink.sig_match(k.get('signature', {}), sig):
                hit = k
        if hit is not None:
            rep.known(hit)
            continue
        rep.violation({'kind': 'violation', 'c': c2, 'case': mk_case(c2['f'], c2['cols'], c2['times'], c2['nv']),
                       'expected': {'source': 'rho(phi,w,t) of the specification layer (Rho.v), one pair per sample', 'values': d2['expected']},
                       'observed': d2['observed'], 'model': d2['model'], 'signature': sig})
        if len(rep.violations) >= 8:
            break
    if not obl['ok']:
        if not rep.violations:
            broken_obligation(rep, obl)
    model.close()
    samples = [{'spec': 'out = ' + fml.to_text(c['f']), 'n': c['n'], 'data': c['cols'], 'time': c['times']} for c in cs[-3:]]
    cov = {
        'evaluations': len(cs), 'distinct_nontrivial': len(distinct),
        'rule': 'feature cover (every operator x boundary situation x n in {1,2,3,7}) then seeded random formulas of the full grammar; '
                'a case counts as non-trivial when its formula has >= 3 nodes, the arithmetic is exact and impl, model and rho were compared on every sample; distinct by (formula, n)',
        'samples': samples, 'traces_validated_against_impl': stats['ok'],
        'dropped_as_indeterminate': stats['dropped'], 'operator_histogram': hist, 'verdicts': stats,
    }
    return rep.finish(obl, cov)
