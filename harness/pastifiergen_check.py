# harness/pastifiergen_check.py [--n N] [--seed S] OUT.v
# Differential check of the GENERATED pastifier / horizon functions (coq/theories/PastifyGen.v, written by tools/py2coq_pastifier.py)
# against the Python classes they were translated from.  One seeded PRNG makes structured random specifications (bounded future,
# past, Boolean, arithmetic, next chains, named sub-specifications, unit spellings, default units, sampling periods; a few with
# unbounded future operators, which pastify() must reject); rtamt parses them, every root of ast.specs is dumped, pastify() runs,
# the new roots are dumped, and the horizon is computed by StlHorizon on a second parse (after to_default_unit).  The cases are written
# as a Coq file: `failing = []` is checked by vm_compute (tree equality is structural, the horizon is compared as a rational).
# An LTL stream does the same with LtlAst + LtlPastifier / LtlHorizon, a dense-time stream with StlDenseTimePastifier.
# run: PYTHONDONTWRITEBYTECODE=1 PYTHONPATH=/repo /venv/bin/python harness/pastifiergen_check.py build/PastifyGenCases.v
import sys, random, logging
from fractions import Fraction

import os
sys.path.insert(0, os.path.dirname(os.path.dirname(os.path.abspath(__file__))))
sys.setrecursionlimit(20000)
logging.disable(logging.CRITICAL)
import rtamt
from rtamt.pastifier.stl.pastifier import StlPastifier, StlDenseTimePastifier
from rtamt.pastifier.stl.horizon import StlHorizon
from rtamt.pastifier.ltl.pastifier import LtlPastifier
from rtamt.pastifier.ltl.horizon import LtlHorizon
from rtamt.semantics.enumerations.comp_op import StlComparisonOperator as Op


def opt(k, d):
    return sys.argv[sys.argv.index(k) + 1] if k in sys.argv else d


N, SEED = int(opt('--n', '3000')), int(opt('--seed', '20260926'))
OUT = [a for a in sys.argv[1:] if a.endswith('.v')][0]

UN = {'Neg': 'u_not', 'Once': 'u_once', 'Historically': 'u_hist', 'Eventually': 'u_ev', 'Always': 'u_alw', 'Previous': 'u_prev',
      'StrongPrevious': 'u_sprev', 'Next': 'u_next', 'StrongNext': 'u_snext', 'Rise': 'u_rise', 'Fall': 'u_fall', 'Abs': 'u_abs',
      'Sqrt': 'u_sqrt', 'Exp': 'u_exp', 'Ln': 'u_ln', 'Negate': 'u_negate'}
TUN = {'TimedOnce': 't_once', 'TimedHistorically': 't_hist', 'TimedEventually': 't_ev', 'TimedAlways': 't_alw'}
FN2 = {'Pow': 'f_pow', 'Log': 'f_log'}
BIN = {'Conjunction': 'b_and', 'Disjunction': 'b_or', 'Implies': 'b_implies', 'Iff': 'b_iff', 'Xor': 'b_xor', 'Since': 'b_since',
       'Until': 'b_until', 'Addition': 'b_add', 'Subtraction': 'b_sub', 'Multiplication': 'b_mul', 'Division': 'b_div'}
TBIN = {'TimedSince': 'tb_since', 'TimedUntil': 'tb_until', 'TimedPrecedes': 'tb_precedes'}
CMP = {Op.LEQ: 'CLeq', Op.LESS: 'CLt', Op.GEQ: 'CGeq', Op.GREATER: 'CGt', Op.EQUAL: 'CEq', Op.NEQ: 'CNeq'}
UNIT = {'': 'None', 's': '(Some US)', 'ms': '(Some UMS)', 'us': '(Some UUS)', 'ns': '(Some UNS)'}


def cstr(s):
    assert '"' not in s
    return '"%s"' % s


def bound(v, u):
    f = Fraction(v)
    assert f >= 0
    return '(mkb %d %d %s)' % (f.numerator, f.denominator, UNIT[u])


def dump(n):
    k = type(n).__name__
    if k == 'Variable':
        return '(NVar %s %s)' % (cstr(n.var), cstr(n.field if n.field else ''))
    if k == 'Constant':
        return '(NConst %s)' % cstr(str(n.val))
    kids = [dump(c) for c in n.children]
    if k == 'Predicate':
        return '(NBin (b_pred %s) %s %s)' % (CMP[n.operator], kids[0], kids[1])
    if k in TUN:
        return '(NTUn %s %s %s %s)' % (TUN[k], bound(n.begin, n.begin_unit), bound(n.end, n.end_unit), kids[0])
    if k in TBIN:
        return '(NTBin %s %s %s %s %s)' % (TBIN[k], bound(n.begin, n.begin_unit), bound(n.end, n.end_unit), kids[0], kids[1])
    if k in UN:
        return '(NUn %s %s)' % (UN[k], kids[0])
    if k in FN2:
        return '(NFn2 %s %s %s)' % (FN2[k], kids[0], kids[1])
    if k in BIN:
        return '(NBin %s %s %s)' % (BIN[k], kids[0], kids[1])
    raise ValueError('unknown node class ' + k)


def qstr(f):
    f = Fraction(f)
    return '(Qmake %s %d)' % (('(%d)' % f.numerator) if f.numerator < 0 else str(f.numerator), f.denominator)


# ---------------------------------------------------------------- random specification texts
UNITS = ['', 's', 'ms', 'us', 'ns']
FUT1 = ['always', 'eventually', 'G', 'F']
PAST1 = ['historically', 'once', 'H', 'O']


def rand_bound(rng):
    r = rng.random()
    if r < 0.6:
        return str(rng.randint(0, 9))
    if r < 0.8:
        return rng.choice(['0.5', '1.5', '2.', '.25', '1e1', '15e-1', '0.001', '2.5e2', '0.1', '0.3', '1_0'])
    if r < 0.9:
        return rng.choice(['kb', 'kc'])
    return '%d.%d' % (rng.randint(0, 20), rng.randint(0, 99))


U = {'s': 10 ** 9, 'ms': 10 ** 6, 'us': 10 ** 3, 'ns': 1}
KV = {'kb': '2', 'kc': '4.5'}


def rand_interval(rng):
    # mostly intervals that the parser accepts (lower bound <= upper bound as durations; the default unit is not known here: 's' and 'ns' tried)
    for attempt in range(30):
        b, bu, e, eu = rand_bound(rng), rng.choice(UNITS), rand_bound(rng), rng.choice(UNITS)
        vb, ve = Fraction(KV.get(b, b).replace('_', '')), Fraction(KV.get(e, e).replace('_', ''))
        ok = True
        for du in ('s', 'ns'):
            rb = bu if bu else (eu if eu else du)
            re_ = eu if eu else rb
            ok = ok and vb * U[rb] <= ve * U[re_]
        if ok or rng.random() < 0.02:
            break
    return '[%s %s%s%s %s]' % (b, bu, rng.choice([',', ':', ' , ']), e, eu)


def rand_expr(rng, depth, stl, subs, unb):
    if depth <= 0 or rng.random() < 0.12:
        r = rng.random()
        if r < 0.6:
            return rng.choice(['x', 'y', 'z', 'm.value', 'w.inner.v'])
        if r < 0.8:
            return rng.choice(['0', '1', '2.5', '1e3', '0.1', '7'])
        if r < 0.9 and subs:
            return rng.choice(subs)
        return rng.choice(['kb', 'kc'])
    sub = lambda: rand_expr(rng, depth - 1, stl, subs, unb)   # noqa: E731
    r = rng.random()
    if r < 0.22:
        o = rng.choice(FUT1)
        if rng.random() < unb:
            return '%s (%s)' % (o, sub())
        if stl:
            return '%s%s (%s)' % (o, rand_interval(rng), sub())
        return 'next (%s)' % sub()
    if r < 0.30:
        return '%s (%s)' % (rng.choice(['next', 'X', 's_next', 'sX']), sub())
    if r < 0.40:
        o = rng.choice(PAST1)
        return '%s%s (%s)' % (o, rand_interval(rng) if stl and rng.random() < 0.7 else '', sub())
    if r < 0.48:
        return '%s (%s)' % (rng.choice(['prev', 'Y', 's_prev', 'sY', 'not', '!', '-']), sub())
    if r < 0.55:
        return '%s(%s)' % (rng.choice(['abs', 'sqrt', 'exp', 'ln', 'rise', 'fall']), sub())
    if r < 0.59:
        return '%s(%s, %s)' % (rng.choice(['pow', 'log']), sub(), sub())
    if r < 0.70:
        o = rng.choice(['until', 'U', 'since', 'S', 'unless', 'W'])
        fut = o in ('until', 'U', 'unless', 'W')
        if fut and rng.random() >= unb:
            if not stl:
                return '(%s) and (next (%s))' % (sub(), sub())
            iv = rand_interval(rng)
        elif fut:
            iv = ''
        else:
            iv = rand_interval(rng) if (stl and rng.random() < 0.7) else ''
        return '(%s) %s%s (%s)' % (sub(), o, iv, sub())
    o = rng.choice(['and', '&', 'or', '|', 'implies', '->', 'iff', '<->', 'xor', '+', '-', '*', '/', '<=', '<', '>=', '>', '==', '!=='])
    a, b = sub(), sub()
    if rng.random() < 0.2:
        b = a
    return '(%s) %s (%s)' % (a, o, b)


def make_text(rng, stl):
    unb = 0.04
    subs, lines = [], []
    for i in range(rng.choice([0, 0, 0, 1, 2])):
        name = 'sub%d' % i
        lines.append('%s = %s;' % (name, rand_expr(rng, rng.randint(1, 3), stl, subs, unb)))
        subs.append(name)
    lines.append('out = %s;' % rand_expr(rng, rng.randint(1, 5), stl, subs, unb))
    return '\n'.join(lines)


def new_spec(kind, text, unit, period):
    if kind == 'ltl':
        from rtamt.syntax.ast.parser.ltl.specification_parser import LtlAst
        from rtamt.spec.abstract_specification import AbstractOfflineOnlineSpecification
        from rtamt.semantics.stl.discrete_time.offline.interpreter import StlDiscreteTimeOfflineInterpreter
        from rtamt.semantics.stl.discrete_time.online.interpreter import StlDiscreteTimeOnlineInterpreter
        spec = AbstractOfflineOnlineSpecification(LtlAst(), StlDiscreteTimeOfflineInterpreter(), StlDiscreteTimeOnlineInterpreter(),
                                                  pastifier=LtlPastifier())
    elif kind == 'dense':
        spec = rtamt.StlDenseTimeSpecification()
    else:
        spec = rtamt.StlDiscreteTimeSpecification()
    spec.import_module('harness.msgs', 'Msg')
    for v in 'xyz':
        spec.declare_var(v, 'float')
    spec.declare_var('m', 'Msg')
    spec.declare_var('w', 'Msg')
    spec.declare_const('kb', 'float', '2')
    spec.declare_const('kc', 'float', '4.5')
    if kind != 'ltl':
        spec.unit = unit
        if period is not None:
            spec.set_sampling_period(period[0], period[1], 0.1)
    spec.spec = text
    spec.parse()
    return spec


def main():
    rng = random.Random(SEED)
    cases, stats = [], {'stl': 0, 'dense': 0, 'ltl': 0, 'rejected_by_parser': 0, 'none': 0, 'roots': 0, 'with_future': 0, 'with_units': 0, 'hmax': 0}
    while len(cases) < N:
        kind = rng.choice(['stl'] * 7 + ['dense', 'ltl', 'ltl'])
        if '--verbose' in sys.argv: print(len(cases), kind, stats, file=sys.stderr)
        text = make_text(rng, kind != 'ltl')
        unit = rng.choice(['s', 'ms', 'us', 'ns'])
        period = rng.choice([None, None, (1, 's'), (2, 's'), (500, 'ms'), (1, 'ms'), (250, 'us'), (3, 'ns'), (10, 'ms')]) if kind != 'ltl' else None
        try:
            spec = new_spec(kind, text, unit, period)
            spec2 = new_spec(kind, text, unit, period)
        except rtamt.RTAMTException:
            stats['rejected_by_parser'] += 1
            continue
        ast = spec.ast
        ins = [dump(s) for s in ast.specs]
        if kind == 'ltl':
            sample, du, per, pu = Fraction(1), 's', 1, 's'
        else:
            per, pu = ast.sampling_period, ast.sampling_period_unit
            if Fraction(str(per)).denominator != 1:
                continue
            per = int(Fraction(str(per)))
            du = ast.unit
            sample = Fraction(str(ast.sampling_period)) * ast.U[ast.sampling_period_unit] / ast.U[ast.unit]
        # horizons on the second parse
        hs = []
        try:
            if kind == 'ltl':
                h = LtlHorizon()
            else:
                p = (StlDenseTimePastifier if kind == 'dense' else StlPastifier)()
                p.ast, p.intervals = spec2.ast, []
                for s in spec2.ast.specs:
                    p.to_default_unit(s)
                h = StlHorizon(sample)
            for s in spec2.ast.specs:
                try:
                    hs.append(h.visit(s, None))
                except rtamt.RTAMTException:
                    hs.append(None)
        except rtamt.RTAMTException:
            hs = [None] * len(ins)
        try:
            spec.pastify()
            outs = [dump(s) for s in spec.ast.specs]
        except rtamt.RTAMTException:
            outs = None
        assert len(hs) == len(ins)
        if outs is None:
            # pastify() as a whole is rejected as soon as one root is: keep the roots whose own horizon is undefined
            roots = [(i, None) for i in range(len(ins)) if hs[i] is None]
        else:
            assert len(outs) == len(ins) and all(x is not None for x in hs)
            roots = [(i, outs[i]) for i in range(len(ins))]
        for i, o in roots:
            stats['roots'] += 1
            stats['none'] += o is None
            stats['with_future'] += bool(hs[i])
            stats['hmax'] = max(stats['hmax'], float(hs[i] or 0))
            stats['with_units'] += 'Some U' in ins[i]
            cases.append((kind, du, per, pu, ins[i], hs[i], o, text))
        stats[kind] += 1
    with open(OUT, 'w') as f:
        f.write('(* GENERATED by harness/pastifiergen_check.py: %d roots (seed %d): %s *)\n' % (len(cases), SEED, stats))
        f.write('From Coq Require Import List Bool ZArith QArith String.\nFrom RV Require Import Val Syntax PySem Units NodeName PyNode PastifyGen.\n'
                'Import ListNotations.\nLocal Open Scope string_scope.\n\n'
                'Definition mkb (n : N) (d : positive) (u : option tunit) : bound := {| bnum := n; bden := d; bunit := u |}.\n'
                'Definition unit_eqb (a b : option tunit) : bool := match a, b with None, None | Some US, Some US | Some UMS, Some UMS | Some UUS, Some UUS | Some UNS, Some UNS => true | _, _ => false end.\n'
                'Definition bound_eqb (a b : bound) : bool := N.eqb (bnum a) (bnum b) && Pos.eqb (bden a) (bden b) && unit_eqb (bunit a) (bunit b).\n'
                'Definition kw_eqb (a b : string) : bool := String.eqb a b.\n'
                'Fixpoint node_eqb (a b : node) : bool :=\n  match a, b with\n'
                '  | NVar v f, NVar v2 f2 => String.eqb v v2 && String.eqb f f2\n  | NConst t, NConst t2 => String.eqb t t2\n'
                '  | NUn o c, NUn o2 c2 => kw_eqb (nname (NUn o (NConst ""))) (nname (NUn o2 (NConst ""))) && node_eqb c c2\n'
                '  | NTUn o b e c, NTUn o2 b2 e2 c2 => kw_eqb (tun_kw o) (tun_kw o2) && bound_eqb b b2 && bound_eqb e e2 && node_eqb c c2\n'
                '  | NFn2 o c d, NFn2 o2 c2 d2 => kw_eqb (fn2_kw o) (fn2_kw o2) && node_eqb c c2 && node_eqb d d2\n'
                '  | NBin o c d, NBin o2 c2 d2 => kw_eqb (nname (NBin o (NConst "") (NConst ""))) (nname (NBin o2 (NConst "") (NConst ""))) && node_eqb c c2 && node_eqb d d2\n'
                '  | NTBin o b e c d, NTBin o2 b2 e2 c2 d2 => kw_eqb (tbin_kw o) (tbin_kw o2) && bound_eqb b b2 && bound_eqb e e2 && node_eqb c c2 && node_eqb d d2\n'
                '  | _, _ => false\n  end.\n'
                'Definition onode_eqb (a b : option node) : bool := match a, b with Some x, Some y => node_eqb x y | None, None => true | _, _ => false end.\n'
                'Definition oq_eqb (a b : option Q) : bool := match a, b with Some x, Some y => Qeq_bool x y | None, None => true | _, _ => false end.\n'
                'Definition oz_q (a : option Z) : option Q := option_map inject_Z a.\n'
                '(* kind: 0 discrete STL, 1 dense STL, 2 LTL *)\n'
                'Definition check (kind : nat) (du : tunit) (p : Z) (pu : tunit) (n : node) (h : option Q) (m : option node) : bool :=\n'
                '  let s := sample_of du p pu in\n'
                '  match kind with\n'
                '  | 0%nat => oq_eqb (gen_StlHorizon s (to_default_unit du n)) h && onode_eqb (gen_stl_pastify du s n) m\n'
                '  | 1%nat => oq_eqb (gen_StlHorizon s (to_default_unit du n)) h && onode_eqb (gen_stl_dense_pastify du s n) m\n'
                '  | _ => oq_eqb (oz_q (gen_LtlHorizon n)) h && onode_eqb (gen_ltl_pastify n) m\n  end.\n\n')
        TU = {'s': 'US', 'ms': 'UMS', 'us': 'UUS', 'ns': 'UNS'}
        for k, (kind, du, per, pu, i, h, o, text) in enumerate(cases):
            f.write('Definition c%d : bool := check %d %s %d %s\n  %s\n  %s\n  %s.\n' % (
                k, {'stl': 0, 'dense': 1, 'ltl': 2}[kind], TU[du], per, TU[pu], i,
                'None' if h is None else '(Some %s)' % qstr(h), 'None' if o is None else '(Some %s)' % o))
        f.write('\nDefinition results : list (nat * bool) := [%s].\n' % '; '.join('(%d%%nat, c%d)' % (k, k) for k in range(len(cases))))
        f.write('Definition failing : list nat := map fst (filter (fun r => negb (snd r)) results).\n'
                'Lemma pastifiergen_cases_agree : failing = []. Proof. vm_compute. reflexivity. Qed.\n')
    print('pastifiergen_check: %d roots written to %s: %s' % (len(cases), OUT, stats))
    # the source texts, for looking a failing case up
    with open(OUT + '.txt', 'w') as f:
        for k, c in enumerate(cases):
            f.write('c%d %s du=%s period=%s%s\n%s\n' % (k, c[0], c[1], c[2], c[3], c[7]))


if __name__ == '__main__':
    main()
