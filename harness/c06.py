# c06.py — C06: interface-aware semantics = standard semantics except at
# predicates that mention no output (input) variable.
import json
import itertools
from harness import fml
from harness.common import parse_fields
from harness.runner import Check, offline_case, online_case, need_vars, expect_vals, gen_obj, with_object_fields

SEMS = ['standard', 'output-robustness', 'input-robustness', 'output-vacuity', 'input-vacuity']


class C06(Check):
    PID = 'C06'
    RULE = ('seeded random formulas (predicates mixing input and output variables, constant-only predicates, xor/iff inside predicate operands) x 5 semantics '
            'x every input/output assignment of <= 3 variables x {offline, online, pastified online for bounded-future formulas} x {combined, dedicated} specification constructors '
            'x {float variables, variables declared with an imported object type (harness.msgs.Msg) and read through a field xa.value / a nested field xa.inner.v, the input/output '
            'declaration being made for the variable name: every corner formula x every io assignment x 5 semantics with all / one / the other variable an object, and a quarter of the random cases}; implementation '
            'compared with rho under the property\'s own definition of insensitive predicates (pk_spec) and with the model of the IA visitors (pk_impl); '
            'non-trivial = a predicate is insensitive under the drawn assignment for a non-standard semantics; distinct by (formula, semantics, io, data)')

    def gen_cases(self, rng, tier):
        cases = []
        nrand = 260 if tier == 'quick' else 4000
        P0 = ('pred', 'geq', ('var', 0), ('const', 1))
        P01 = ('pred', 'leq', ('a2', 'add', ('var', 0), ('var', 1)), ('const', 3))
        PC = ('pred', 'lt', ('const', 1), ('const', 2))
        PX = ('pred', 'geq', ('xor', ('var', 0), ('var', 1)), ('const', 1))
        PI = ('pred', 'geq', ('iff', ('var', 0), ('var', 1)), ('const', 0))
        base = [P0, P01, PC, PX, PI, ('and', P0, P01), ('once', ('or', PC, P0)), ('since', P0, P01), ('alwt', 0, 2, P01),
                ('pred', 'eq', ('var', 0), ('var', 0)), ('pred', 'neq', ('var', 1), ('const', 2)), ('pred', 'gt', ('a1', 'abs', ('var', 1)), ('var', 0))]
        items = [(f, 2) for f in base]
        for i in range(nrand):
            nv = rng.choice([1, 2, 2, 3, 3])
            d = rng.choice([0, 1, 1, 2, 2, 3])
            g = fml.Gen(rng, nvars=nv, maxb=2, raw_leaf=0.0)
            f = g.formula(d)
            if rng.random() < 0.15:
                f = ('and', f, rng.choice([PX, PI, PC]))
            if fml.size(f) > 40:
                continue
            items.append((f, nv))
        for (f, nv) in items:
            nv = need_vars(f, nv)
            n = rng.choice([1, 2, 3, 5, 8])
            cols = fml.gen_trace(rng, nv, n)
            ios = list(itertools.product([0, 1], repeat=nv))
            pick = ios if len(cases) < 200 else [rng.choice(ios)]
            for io in pick:
                for sem in (SEMS if len(cases) < 400 else [rng.choice(SEMS)]):
                    cases.append({'f': f, 'n': n, 'nv': nv, 'cols': cols, 'times': list(range(n)), 'io': list(io), 'sem': sem,
                                  'ctor': rng.choice(['combined', 'split'])})
        # variables that are objects, read through a field: the io declaration names the variable (xa), the formula names xa.value
        orng = __import__('random').Random(rng.getrandbits(64))
        for c in cases:
            if orng.random() < 0.25:
                c['obj'] = gen_obj(orng, c['nv'], force=True)
        shapes = [['value', 'value'], ['value', ''], ['', 'inner.v'], ['inner.v', 'value']]
        for k, f in enumerate(base):
            n = orng.choice([1, 2, 3, 5])
            cols = fml.gen_trace(orng, 2, n)
            for io in itertools.product([0, 1], repeat=2):
                for sem in SEMS:
                    cases.append({'f': f, 'n': n, 'nv': 2, 'cols': cols, 'times': list(range(n)), 'io': list(io), 'sem': sem,
                                  'ctor': orng.choice(['combined', 'split']), 'obj': shapes[(k + io[0] + 2 * io[1]) % len(shapes)]})
        return cases

    def model_lines(self, c):
        io = ' '.join(str(b) for b in c['io'])
        w = fml.trace_sx(c['cols'])
        return ['(off (ia %s (%s)) %s %d %s)' % (c['sem'], io, fml.to_sx(c['f']), c['n'], w),
                '(off (iaspec %s (%s)) %s %d %s)' % (c['sem'], io, fml.to_sx(c['f']), c['n'], w),
                '(pastpk (iaspec %s (%s)) %s %d %s)' % (c['sem'], io, fml.to_sx(c['f']), c['n'], w)]

    def pastified(self, c):
        """bounded-future formulas also go through pastify() + the online monitor"""
        return fml.has_future(c['f']) and not (fml.ops(c['f']) & fml.UNB_FUTURE)

    def impl_cases(self, c):
        io = {fml.VARS[i]: ('input' if c['io'][i] else 'output') for i in range(c['nv'])}
        kw = {'io': io, 'semantics': c['sem'], 'ctor': c.get('ctor', 'combined')}
        out = [offline_case(c['f'], c['cols'], c['times'], c['nv'], **kw)]
        if not fml.has_future(c['f']):
            out.append(online_case(c['f'], c['cols'], c['times'], c['nv'], **kw))
        if c['sem'] == 'standard':
            out.append(offline_case(c['f'], c['cols'], c['times'], c['nv'], semantics='standard', ctor=c.get('ctor', 'combined')))
        if self.pastified(c):
            out.append(online_case(c['f'], c['cols'], c['times'], c['nv'], pastify=True, **kw))
        return [with_object_fields(x, c.get('obj')) for x in out]

    def judge(self, c, mlines, ires):
        m1, m2 = parse_fields(mlines[0]), parse_fields(mlines[1])
        if 'ERROR' in m1 or 'ERROR' in m2:
            return 'model-error', mlines
        if m1['EXACT'] != ['1'] or m2['EXACT'] != ['1']:
            return 'dropped', None
        spec = json.loads(json.dumps(expect_vals([fml.parse_val(x) for x in m2['RHO']])))
        impl_model = json.loads(json.dumps(expect_vals([fml.parse_val(x) for x in m1['OFF']])))
        det = {'semantics': c['sem'], 'io': c['io'], 'object_fields': c.get('obj'), 'expected': {'source': 'rho with every insensitive predicate contributing +-inf / 0 (pk_spec)', 'values': spec}, 'model': impl_model}
        sigs = []
        for i in ires:
            if i['setup']['status'] != 'ok':
                return 'violation', dict(det, observed=i['setup'])
            vals = []
            for r in i['calls']:
                if r['status'] != 'ok':
                    return 'violation', dict(det, observed=r)
                vals.append(r['value'])
            sigs.append(vals)
        off = [p[1] for p in sigs[0][0]]
        if off != spec:
            return 'violation', dict(det, observed={'offline': off})
        k = 1
        if not fml.has_future(c['f']):
            if sigs[1] != spec:
                return 'violation', dict(det, observed={'online': sigs[1]})
            k = 2
        if c['sem'] == 'standard':
            noio = [p[1] for p in sigs[k][0]]
            if noio != off:
                return 'violation', dict(det, observed={'with_io': off, 'without_io': noio}, note='STANDARD semantics depends on io declarations')
        if impl_model != spec:
            return 'model-vs-spec', det
        if self.pastified(c):
            pm = parse_fields(mlines[2])
            if 'ERROR' not in pm and pm['GUARD'] == ['1'] and pm['EXACT'] == ['1']:
                pspec = [None if x == '_' else expect_vals([fml.parse_val(x)])[0] for x in pm['SPEC']]
                pspec = json.loads(json.dumps(pspec))
                obs = sigs[-1]
                bad = [i for i in range(len(obs)) if pspec[i] is not None and obs[i] != pspec[i]]
                if bad:
                    return 'violation', dict(det, expected={'source': 'rho under pk_spec of the original formula on the samples seen so far, at i - horizon', 'values': pspec},
                                             observed={'pastified online': obs, 'differs_at': bad})
        return 'ok', None

    def nontrivial(self, c):
        if c['sem'] == 'standard':
            return False
        want_in = c['sem'].startswith('input')
        for s in fml.subformulas(c['f']):
            if s[0] == 'pred':
                vs = fml.fvars(s)
                mentions = any((c['io'][v] == 1) == want_in for v in vs)
                if not mentions:
                    return True
        return False

    def features(self, c):
        return [c['sem']] + sorted(o for o in fml.ops(c['f']) if o.startswith('pred')) + self.obj_features(c)

    @staticmethod
    def obj_features(c):
        # a variable read through a field of an object, by its io declaration; 'insensitive' = some predicate is insensitive
        # only because of the declaration of such a variable
        obj = c.get('obj') or []
        used = [i for i in fml.fvars(c['f']) if i < len(obj) and obj[i]]
        fs = []
        if used:
            fs.append('object-field-variable')
            fs += sorted(set('object-field:' + ('input' if c['io'][i] else 'output') for i in used))
            fs += sorted(set('object-field-kind:' + obj[i] for i in used))
        return fs

    def key(self, c):
        return json.dumps([fml.to_sx(c['f']), c['sem'], c['io'], c['cols'], c.get('obj') or []])

    def describe(self, c):
        spec = with_object_fields({'spec': 'out = ' + fml.to_text(c['f']), 'vars': fml.VARS[:c['nv']]}, c.get('obj'))['spec']
        return {'spec': spec, 'semantics': c['sem'], 'io': c['io'], 'object_fields': c.get('obj'), 'data': c['cols']}


def main(tier, seed, replay=None):
    from harness import densex
    return densex.extend(C06, densex.D06())().main(tier, seed, replay)
