# c04.py — C04: dense-time offline evaluate() denotes rho(phi, w, t) of the
# dense-time semantics on the common input domain.
import json
import math
from harness import fml, dense
from harness.common import parse_fields
from harness.runner import Check, need_vars


def gen_dense_formula(rng, nv, depth, future=True):
    g = fml.Gen(rng, nvars=nv, maxb=4, risefall=False, prevnext=False, future=future, fancy_arith=False, raw_leaf=0.05)

    def even(f):
        if f[0] in fml.TUN or f[0] in fml.TBIN:
            return (f[0], 2 * f[1], 2 * f[2]) + tuple(even(c) for c in f[3:])
        return fml.rebuild(f, [even(c) for c in fml.children(f)])
    return even(g.formula(depth))


def timed_vars(f, under=False):
    """variables that occur beneath a bounded temporal operator"""
    if f[0] == 'var':
        return {f[1]} if under else set()
    u = under or f[0] in fml.TUN or f[0] in fml.TBIN
    out = set()
    for c in fml.children(f):
        out |= timed_vars(c, u)
    return out


def gen_samples(rng, bad=False):
    n = rng.choice([0, 1, 1, 2, 3, 4, 5, 6])
    t = rng.choice([0, 0, 0, 1, 2, 5])
    out = []
    for _ in range(n):
        out.append([t, rng.randint(-3, 3)])
        t += rng.choice([0, 0, -1, 1, 2]) if bad else rng.choice([1, 1, 2, 3, 5])
    return out


class C04(Check):
    PID = 'C04'
    RULE = ('seeded random dense-time formulas (arithmetic, comparisons, Boolean, bounded/unbounded once/historically/eventually/always/since/until) x '
            'piecewise-constant signals with 1-6 samples per variable, unaligned break-points, windows longer than the signal, results starting with +-inf; '
            'the returned sample list must have non-decreasing stamps, start at the start of the common domain and, as a right-continuous step function, '
            'equal the tick semantics rhoZ (DenseSem.v) at every tick of the domain (cross-checked against the naive evaluator Dn of Dense.v); '
            '20% of the cases with bounded operators write the bounds with explicit units (both ends / one end); non-trivial = temporal operator and >= 2 samples; distinct by (formula, signals); signals and bounds on a 0.1 s grid (decimal time-stamps); signals of different lengths where a partial arithmetic function is undefined only after the end of the shorter one; plus direct calls of intersection(a, b, method) on random sample lists '
            '(15% malformed: repeated/decreasing stamps) compared list-for-list, exception-for-None, with the proved model DenseMerge.isect')

    def gen_cases(self, rng, tier):
        cases = []
        nrand = 450 if tier == 'quick' else 8000
        P = ('pred', 'geq', ('var', 0), ('const', 1))
        Q = ('pred', 'leq', ('var', 1), ('const', 2))
        base = [('oncet', 2, 4, P), ('histt', 0, 4, P), ('evt', 2, 4, P), ('alwt', 0, 6, P), ('sincet', 0, 4, P, Q), ('sincet', 2, 4, P, Q),
                ('untilt', 0, 4, P, Q), ('untilt', 2, 6, P, Q), ('once', P), ('hist', P), ('ev', P), ('alw', P), ('since', P, Q), ('until', P, Q),
                ('and', P, Q), ('or', P, ('not', Q)), ('implies', P, Q), ('iff', P, Q), ('xor', P, Q), ('since', ('oncet', 2, 2, P), Q),
                ('pred', 'geq', ('a2', 'add', ('var', 0), ('var', 1)), ('const', 0)), ('pred', 'eq', ('var', 0), ('var', 1)),
                ('pred', 'lt', ('a1', 'abs', ('var', 0)), ('a1', 'neg', ('var', 1))), ('oncet', 2, 40, P), ('alwt', 20, 40, P)]
        items = [(f, 2) for f in base for _ in range(3)]
        for i in range(nrand):
            nv = rng.choice([1, 2, 2, 3])
            items.append((gen_dense_formula(rng, nv, rng.choice([1, 1, 2, 2, 3])), nv))
        for (f, nv) in items:
            if fml.size(f) > 30 or not fml.fvars(f):
                continue
            nv = need_vars(f, nv)
            sigs = [dense.gen_signal(rng, start0=(rng.random() < 0.7)) for _ in range(nv)]
            c = {'f': f, 'nv': nv, 'sigs': sigs, 'n': max(len(s) for s in sigs)}
            if (fml.ops(f) & (fml.TUN | fml.TBIN)) and rng.random() < 0.2:
                # the bounds in another unit notation (default unit stays s, so the time-stamps are unchanged)
                c['unit_style'] = [rng.choice(['both', 'begin', 'end']), rng.randrange(1 << 30)]
            cases.append(c)
        # division, pow, sqrt, exp, ln, log (exact by construction of the signals)
        for (f, sigs) in dense.fancy_cases(rng, 40 if tier == 'quick' else 600):
            cases.append({'f': f, 'nv': 2, 'sigs': sigs, 'n': max(len(x) for x in sigs)})
        # decimal time-stamps: one tick is 0.1 s, the stamps are k * 0.1 and the bounds b * 0.1 (neither is a binary fraction)
        Xs, Zs = ('pred', 'geq', ('var', 0), ('const', 0)), ('pred', 'geq', ('var', 1), ('const', 0))
        decf = [('sincet', 0, 5, Xs, ('sincet', 0, 1, Zs, Xs)), ('since', ('oncet', 3, 8, Xs), Zs), ('implies', Xs, ('evt', 1, 1, ('alwt', 1, 3, Zs))), ('evt', 1, 1, ('evt', 7, 7, ('var', 0))),
                ('alwt', 1, 1, ('var', 0)), ('and', ('histt', 0, 2, Xs), Zs)]
        for k in range(12 if tier == 'quick' else 150):
            f = decf[k % len(decf)]
            sigs = []
            for _ in range(2):
                sg, t = [], 0
                for _ in range(rng.randint(3, 7)):
                    sg.append([t, rng.randint(-3, 3)])
                    t += rng.choice([1, 1, 2, 3])
                sigs.append(sg)
            cases.append({'f': f, 'nv': 2, 'sigs': sigs, 'n': max(len(x) for x in sigs), 'dec': 1})
        # integer time-stamps beyond 2**53 (nanoseconds since the epoch, unit ns): the first sample at 0, the others T0 + k; bounds are whole numbers of
        # nanoseconds, so every stamp of the result is an integer that must be exact (compared with the list of the visitor model, DenseVisitor.deval on Z)
        bigf = [('oncet', 0, 2, ('var', 0)), ('histt', 1, 3, Xs), ('evt', 0, 2, ('var', 0)), ('alwt', 1, 2, Xs), ('sincet', 0, 3, Xs, Zs), ('untilt', 1, 2, Xs, Zs),
                ('and', ('oncet', 0, 2, Xs), Zs), ('a2', 'add', ('var', 0), ('evt', 1, 1, ('var', 1)))]
        for k in range(16 if tier == 'quick' else 200):
            f = bigf[k % len(bigf)]
            T0 = [1700000000000000000, 2 ** 53, 2 ** 60 + 1, 1000][k % 4]
            sigs = []
            for _ in range(2):
                sg, t = [[0, rng.randint(-3, 3)]], T0
                for _ in range(rng.randint(3, 7)):
                    t += rng.choice([1, 1, 2, 3, 5])
                    sg.append([t, rng.randint(-3, 3)])
                sigs.append(sg)
            cases.append({'f': f, 'nv': 2, 'sigs': sigs, 'n': max(len(x) for x in sigs), 'big': T0})
        # partial arithmetic beyond the common domain: xb is longer than xa and takes, only after the end of xa, a value on which the term is undefined
        # (division by 0, sqrt / ln of a negative number): the values on the common domain are well defined
        X, Y = ('var', 0), ('var', 1)
        for k in range(6 if tier == 'quick' else 60):
            t = [('a2', 'div', X, Y), ('a1', 'sqrt', ('a2', 'sub', Y, ('const', 1))), ('a1', 'ln', Y), ('a2', 'div', ('const', 4), ('a2', 'sub', Y, ('const', 0)))][k % 4]
            p = ('pred', rng.choice(['geq', 'leq']), t, ('const', rng.randint(0, 2)))
            p2 = ('and', p, ('pred', 'geq', X, ('const', 0)))
            f = rng.choice([p2, p2, ('oncet', 0, 2, p2)] + ([p, ('oncet', 0, 2, p)] if 0 in fml.fvars(p) else []))
            sx, sy, tx = [], [], 0
            for _ in range(rng.randint(2, 4)):
                sx.append([tx, 4 * rng.randint(0, 3)])
                tx += rng.choice([2, 4])
            end = sx[-1][0]
            ty = 0
            while ty <= end:
                sy.append([ty, rng.choice([1, 2, 4])])
                ty += rng.choice([2, 4])
            if sy[-1][0] != end:
                sy.append([end, sy[-1][1]])
            tail = [[end + 2, 0 if k % 4 in (0, 3) else -3], [end + 6, 1]]
            cases.append({'f': f, 'nv': 2, 'sigs': [sx, sy + tail], 'model_sigs': [sx, sy], 'n': len(sy) + 2, 'beyond': 1})
        # the merge itself, called directly: intersection(a, b, method) against DenseMerge.isect
        nm = 300 if tier == 'quick' else 6000
        for i in range(nm):
            bad = rng.random() < 0.15          # malformed stream: repeated or decreasing stamps
            cases.append({'merge': rng.choice(['and', 'or', 'sub', 'add']), 'a': gen_samples(rng, bad), 'b': gen_samples(rng, bad and rng.random() < 0.5), 'n': 0})
        return cases

    def load_case(self, c):
        c = Check.load_case(self, c)
        return c

    def model_lines(self, c):
        if 'merge' in c:
            sx = lambda l: '(' + ' '.join('(%d %d)' % (t, v) for t, v in l) + ')'
            return ['(isect %d %s %s)' % (['and', 'or', 'sub', 'add'].index(c['merge']), sx(c['a']), sx(c['b']))]
        used = fml.fvars(c['f'])
        if c.get('big'):
            return ['(deval %s (%s))' % (fml.to_sx(c['f']), ' '.join(dense.sig_sx(s_) for s_ in c['sigs']))]
        msigs = c.get('model_sigs', c['sigs'])
        t0 = max(msigs[i][0][0] for i in used)
        tend = max(msigs[i][-1][0] for i in used)
        w = ' '.join(dense.sig_sx(s) for s in msigs)
        return ['(dn std %s (%s))' % (fml.to_sx(c['f']), w), '(rhoz std %s (%s) %d %d)' % (fml.to_sx(c['f']), w, t0, max(tend, t0)),
                '(deval %s (%s))' % (fml.to_sx(c['f']), w)]

    def spec_text(self, c):
        if c.get('dec'):
            return 'out = ' + fml.to_text(c['f'], lambda b, e: '[%s,%s]' % ('%.1f' % (b / 10.0), '%.1f' % (e / 10.0)))
        if c.get('unit_style'):
            import random
            from harness.densex import dense_bound
            style, seed = c['unit_style']
            r = random.Random(seed)
            return 'out = ' + fml.to_text(c['f'], lambda b, e: dense_bound(r, b, e, 's', style))
        return 'out = ' + dense.dense_formula_text(c['f'])

    def impl_cases(self, c):
        if 'merge' in c:
            return [{'monitor': 'dense-merge', 'op': c['merge'], 'a': c['a'], 'b': c['b']}]
        used = fml.fvars(c['f'])
        to_impl = (lambda sg: [[t * 0.1, float(v)] for t, v in sg]) if c.get('dec') else dense.to_impl
        if c.get('big'):
            return [{'monitor': 'dense-offline', 'vars': fml.VARS[:c['nv']], 'spec': 'out = ' + fml.to_text(c['f']), 'unit': 'ns',
                     'calls': [['evaluate', [[fml.VARS[i], [[int(t), float(v)] for t, v in c['sigs'][i]]] for i in used]]]}]
        return [{'monitor': 'dense-offline', 'vars': fml.VARS[:c['nv']], 'spec': self.spec_text(c),
                 'calls': [['evaluate', [[fml.VARS[i], to_impl(c['sigs'][i])] for i in used]]]}]

    def judge(self, c, mlines, ires):
        if mlines[0].startswith('ERROR'):
            return 'model-error', mlines[0]
        if 'merge' in c:
            r = ires[0]['calls'][0] if ires[0]['calls'] else ires[0]['setup']
            if mlines[0] == 'ISECT BAD':
                exp = {'status': 'rtamt'}
                same = r['status'] == 'rtamt'
            else:
                exp = [[int(x.split(':')[0]), int(x.split(':')[1])] for x in mlines[0].split()[1:]]
                same = r['status'] == 'ok' and [list(x) for x in r['value']] == exp
            if same:
                return 'ok', None
            return 'violation', {'call': 'intersection(a, b, %s)' % c['merge'], 'a': c['a'], 'b': c['b'],
                                 'expected': {'source': 'DenseMerge.isect (proved correct in DenseMergeCorrect.v)', 'value': exp}, 'observed': r}
        if c.get('big'):
            det = {'spec': 'out = ' + fml.to_text(c['f']), 'unit': 'ns', 'signals_ns': c['sigs'], 'shape': 'integer_time_stamps'}
            if not fml.fvars(c['f']):
                return 'dropped', None
            i = ires[0]
            r = i['calls'][0] if i['setup']['status'] == 'ok' else i['setup']
            if r['status'] != 'ok':
                return 'violation', dict(det, observed=r)
            if not mlines[0].startswith('DEVAL') or mlines[0] == 'DEVAL NONE':
                return 'model-error', mlines[0]
            dv = [[int(x.split(':')[0]), float(fml.parse_val(x.split(':')[1]))] for x in mlines[0].split()[1:]]
            got = [[t, float(v)] for t, v in r['value'] if t != math.inf and t != 'inf']
            if any(not isinstance(t, int) and not float(t).is_integer() for t, _ in got) or [[int(t), v] for t, v in got] != dv:
                return 'violation', dict(det, kind='list', expected={'source': 'DenseVisitor.deval on integer ticks of 1 ns', 'samples_ns': dv}, observed={'samples_ns': got})
            return 'ok', None
        if not dense.dn_exact(mlines[0]):
            return 'dropped', None
        ref = dense.parse_dn(mlines[0])
        used = fml.fvars(c['f'])
        t0 = max(c['sigs'][i][0][0] for i in used)
        end = max(c['sigs'][i][-1][0] for i in used)
        if c.get('beyond'):
            # the model saw the signals cut at the end of the common domain; only that domain is compared
            end = min(c['sigs'][i][-1][0] for i in used)
        det = {'spec': self.spec_text(c), 'signals_ticks': c['sigs'], 'tick_s': dense.SCALE,
               'expected': {'source': 'Dn (Dense.v): dense-time semantics on the common domain', 'samples_ticks': [[t, fml.val_sx(v)] for t, v in ref]}}
        i = ires[0]
        if i['setup']['status'] != 'ok':
            return 'violation', dict(det, observed=i['setup'])
        r = i['calls'][0]
        if r['status'] != 'ok':
            return 'violation', dict(det, observed=r)
        out = dense.from_impl(r['value'])
        if c.get('dec'):
            # ticks of 0.1 s: the result is read at the instants k * 0.1 themselves
            out = [[(t * dense.SCALE) / 0.1 if t != math.inf else t, v] for t, v in out]
            out = [[round(t) if t != math.inf and abs(t - round(t)) < 1e-18 else t, v] for t, v in out]
            det['tick_s'] = 0.1
        det['observed_value'] = r['value']
        # the implementation-layer model of the whole visitor (DenseVisitor.deval, proved against rhoZ for signals that start
        # at 0: C04_visitor) must return the same list, sample for sample — also where the semantics is missed (late starts)
        if len(mlines) > 2 and mlines[2].startswith('DEVAL') and not c.get('beyond') and not c.get('dec'):
            got = [[t, v] for t, v in out if t != math.inf]
            if mlines[2] == 'DEVAL NONE':
                return 'violation', dict(det, kind='list', expected={'source': 'DenseVisitor.deval: an exception'}, observed={'samples_ticks': got})
            dv = [[int(x.split(':')[0]), fml.parse_val(x.split(':')[1])] for x in mlines[2].split()[1:]]
            if [[float(t), float(v)] for t, v in dv] != [[float(t), float(v)] for t, v in got]:
                return 'violation', dict(det, kind='list', expected={'source': 'DenseVisitor.deval: the sample list the visitors build', 'samples_ticks': [[t, fml.val_sx(v)] for t, v in dv]},
                                         observed={'samples_ticks': got})
            self.deval_compared = getattr(self, 'deval_compared', 0) + 1
        ts = [t for t, _ in out]
        if not out:
            return 'violation', dict(det, observed='empty result')
        if any(ts[k] > ts[k + 1] for k in range(len(ts) - 1)):
            return 'violation', dict(det, observed='time-stamps decrease')
        if not ref:
            return 'model-error', 'empty reference'
        if out[0][0] != t0:
            return 'violation', dict(det, observed={'starts_at_tick': out[0][0], 'domain_starts_at_tick': t0})
        if mlines[1].startswith('ERROR'):
            return 'model-error', mlines[1]
        spec = dense.parse_rhoz(mlines[1], t0)
        det['expected'] = {'source': 'rhoZ (DenseSem.v): the dense-time semantics at every tick of the domain', 'values_from_tick_%d' % t0: [fml.val_sx(spec[t]) for t in sorted(spec)]}
        diff = dense.compare_ticks(spec, out, t0, end)
        if diff is not None:
            return 'violation', dict(det, observed=diff)
        if dense.compare_ticks(spec, ref, t0, end) is not None:
            return 'model-vs-spec', dict(det, note='the naive evaluator Dn disagrees with the tick semantics rhoZ', dn=ref)
        return 'ok', None

    def still_fails(self, model, c, shape=None):
        if c.get('beyond') or c.get('dec'):
            return False, None          # two signal sets that must stay in step / a fixed time scale: not shrunk
        return Check.still_fails(self, model, c, shape)

    def signature(self, c, detail):
        if 'merge' in c:
            return {'shape': 'merge', 'op': c['merge']}
        sig = Check.signature(self, c, detail)
        used = fml.fvars(c['f'])
        late = any(c['sigs'][i][0][0] != 0 for i in used if i < len(c['sigs']))
        late_timed = any(c['sigs'][i][0][0] != 0 for i in timed_vars(c['f']) if i < len(c['sigs']))
        sig['shape'] = 'late_start_bounded' if late_timed else ('late_start' if late else 'start_at_0')
        if c.get('beyond'):
            sig['shape'] = 'partial_arithmetic_beyond_the_common_domain'
        if c.get('dec'):
            sig['shape'] = 'decimal_time_stamps'
        if isinstance(detail, dict) and detail.get('kind') == 'list':
            # the sample list differs from the model of the visitor: never the known finding, whatever the signals look like
            sig['shape'] = 'list_differs_from_visitor_model'
        return sig

    def nontrivial(self, c):
        if 'merge' in c:
            return len(c['a']) + len(c['b']) >= 3
        return bool(fml.ops(c['f']) & (fml.UN | fml.BIN | fml.TUN | fml.TBIN) - {'not', 'and', 'or', 'implies', 'iff', 'xor'}) and c['n'] >= 2

    def key(self, c):
        if 'merge' in c:
            return json.dumps(c, sort_keys=True)
        return json.dumps([fml.to_sx(c['f']), c['sigs'], c.get('dec'), c.get('beyond')])

    def features(self, c):
        if 'merge' in c:
            return ['merge:' + c['merge']]
        return Check.features(self, c)

    def extra_evidence(self):
        return {'lists_compared_with_the_visitor_model': getattr(self, 'deval_compared', 0)}

    def describe(self, c):
        if 'merge' in c:
            return c
        return {'spec': 'out = ' + dense.dense_formula_text(c['f']), 'signals': [dense.to_impl(s) for s in c['sigs']]}

    def normalize(self, c):
        c = dict(c)
        if 'cols' in c:
            c.pop('cols')
        return c



def main(tier, seed, replay=None):
    return C04().main(tier, seed, replay)
