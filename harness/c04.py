# c04.py — C04: dense-time offline evaluate() denotes rho(phi, w, t) of the
# dense-time semantics on the common input domain.
import json
import math
from harness import fml, dense
from harness.common import parse_fields
from harness.runner import Check, need_vars


def gen_dense_formula(rng, nv, depth, future=True):
    g = fml.Gen(rng, nvars=nv, maxb=4, risefall=False, prevnext=False, future=future, fancy_arith=False, raw_leaf=0.05)

    def even(f):
        if f[0] in fml.TUN or f[0] in fml.TBIN:
            return (f[0], 2 * f[1], 2 * f[2]) + tuple(even(c) for c in f[3:])
        return fml.rebuild(f, [even(c) for c in fml.children(f)])
    return even(g.formula(depth))


class C04(Check):
    PID = 'C04'
    RULE = ('seeded random dense-time formulas (arithmetic, comparisons, Boolean, bounded/unbounded once/historically/eventually/always/since/until) x '
            'piecewise-constant signals with 1-6 samples per variable, unaligned break-points, windows longer than the signal, results starting with +-inf; '
            'the returned sample list must have non-decreasing stamps, start at the start of the common domain and, as a right-continuous step function, '
            'equal the naive dense-time evaluator Dn (Dense.v) at every break-point and mid-point of the domain; '
            'non-trivial = temporal operator and >= 2 samples; distinct by (formula, signals)')

    def gen_cases(self, rng, tier):
        cases = []
        nrand = 450 if tier == 'quick' else 8000
        P = ('pred', 'geq', ('var', 0), ('const', 1))
        Q = ('pred', 'leq', ('var', 1), ('const', 2))
        base = [('oncet', 2, 4, P), ('histt', 0, 4, P), ('evt', 2, 4, P), ('alwt', 0, 6, P), ('sincet', 0, 4, P, Q), ('sincet', 2, 4, P, Q),
                ('untilt', 0, 4, P, Q), ('untilt', 2, 6, P, Q), ('once', P), ('hist', P), ('ev', P), ('alw', P), ('since', P, Q), ('until', P, Q),
                ('and', P, Q), ('or', P, ('not', Q)), ('implies', P, Q), ('iff', P, Q), ('xor', P, Q), ('since', ('oncet', 2, 2, P), Q),
                ('pred', 'geq', ('a2', 'add', ('var', 0), ('var', 1)), ('const', 0)), ('pred', 'eq', ('var', 0), ('var', 1)),
                ('pred', 'lt', ('a1', 'abs', ('var', 0)), ('a1', 'neg', ('var', 1))), ('oncet', 2, 40, P), ('alwt', 20, 40, P)]
        items = [(f, 2) for f in base for _ in range(3)]
        for i in range(nrand):
            nv = rng.choice([1, 2, 2, 3])
            items.append((gen_dense_formula(rng, nv, rng.choice([1, 1, 2, 2, 3])), nv))
        for (f, nv) in items:
            if fml.size(f) > 30 or not fml.fvars(f):
                continue
            nv = need_vars(f, nv)
            sigs = [dense.gen_signal(rng, start0=(rng.random() < 0.7)) for _ in range(nv)]
            cases.append({'f': f, 'nv': nv, 'sigs': sigs, 'n': max(len(s) for s in sigs)})
        return cases

    def load_case(self, c):
        c = Check.load_case(self, c)
        return c

    def model_lines(self, c):
        return ['(dn std %s (%s))' % (fml.to_sx(c['f']), ' '.join(dense.sig_sx(s) for s in c['sigs']))]

    def impl_cases(self, c):
        used = fml.fvars(c['f'])
        return [{'monitor': 'dense-offline', 'vars': fml.VARS[:c['nv']], 'spec': 'out = ' + dense.dense_formula_text(c['f']),
                 'calls': [['evaluate', [[fml.VARS[i], dense.to_impl(c['sigs'][i])] for i in used]]]}]

    def judge(self, c, mlines, ires):
        if mlines[0].startswith('ERROR'):
            return 'model-error', mlines[0]
        if not dense.dn_exact(mlines[0]):
            return 'dropped', None
        ref = dense.parse_dn(mlines[0])
        used = fml.fvars(c['f'])
        t0 = max(c['sigs'][i][0][0] for i in used)
        end = max(c['sigs'][i][-1][0] for i in used)
        det = {'spec': 'out = ' + dense.dense_formula_text(c['f']), 'signals_ticks': c['sigs'], 'tick_s': dense.SCALE,
               'expected': {'source': 'Dn (Dense.v): dense-time semantics on the common domain', 'samples_ticks': [[t, fml.val_sx(v)] for t, v in ref]}}
        i = ires[0]
        if i['setup']['status'] != 'ok':
            return 'violation', dict(det, observed=i['setup'])
        r = i['calls'][0]
        if r['status'] != 'ok':
            return 'violation', dict(det, observed=r)
        out = dense.from_impl(r['value'])
        det['observed_value'] = r['value']
        ts = [t for t, _ in out]
        if not out:
            return 'violation', dict(det, observed='empty result')
        if any(ts[k] > ts[k + 1] for k in range(len(ts) - 1)):
            return 'violation', dict(det, observed='time-stamps decrease')
        if not ref:
            return 'model-error', 'empty reference'
        if out[0][0] != t0:
            return 'violation', dict(det, observed={'starts_at_tick': out[0][0], 'domain_starts_at_tick': t0})
        diff = dense.compare_functions(ref, out, t0, end)
        if diff is not None:
            return 'violation', dict(det, observed=diff)
        return 'ok', None

    def signature(self, c, detail):
        sig = Check.signature(self, c, detail)
        used = fml.fvars(c['f'])
        late = any(c['sigs'][i][0][0] != 0 for i in used if i < len(c['sigs']))
        timed = bool(fml.ops(c['f']) & (fml.TUN | fml.TBIN))
        sig['shape'] = 'late_start_bounded' if (late and timed) else ('late_start' if late else 'start_at_0')
        return sig

    def nontrivial(self, c):
        return bool(fml.ops(c['f']) & (fml.UN | fml.BIN | fml.TUN | fml.TBIN) - {'not', 'and', 'or', 'implies', 'iff', 'xor'}) and c['n'] >= 2

    def key(self, c):
        return json.dumps([fml.to_sx(c['f']), c['sigs']])

    def describe(self, c):
        return {'spec': 'out = ' + dense.dense_formula_text(c['f']), 'signals': [dense.to_impl(s) for s in c['sigs']]}

    def normalize(self, c):
        c = dict(c)
        if 'cols' in c:
            c.pop('cols')
        return c

    def still_fails(self, model, c):
        return Check.still_fails(self, model, c)


def main(tier, seed, replay=None):
    return C04().main(tier, seed, replay)
