# c15_min.py — C15, renderings with few parentheses (ParserMin.v) against rtamt itself.
# Random ASTs of the parser model (all operators, prefix operators anywhere, intervals, functions) are rendered by the
# extracted model (driver command 'rmin': needed parentheses + optional extra pairs); the text is parsed by rtamt
# (StlDiscreteTimeSpecification) and by the model (lexer + parser + visitor); both ASTs must equal the AST we started from.
# Minimality: the minimal rendering with any ONE needed pair removed must NOT parse to that AST (rtamt and model), and rtamt
# and the model must agree on what it parses to instead.
# usage: PYTHONPATH=/repo:<verif> /venv/bin/python -m harness.c15_min [N] [seed]
import sys
import random
import subprocess
import os

VERIF = os.path.dirname(os.path.dirname(os.path.abspath(__file__)))
DRIVER = os.path.join(VERIF, 'build', 'model_driver')

UN = ['neg', 'not', 'always', 'eventually', 'historically', 'once', 'prev', 'next', 'sprev', 'snext']
UN_IV = {'always', 'eventually', 'historically', 'once'}
F1 = ['abs', 'sqrt', 'exp', 'ln', 'rise', 'fall']
F2 = ['pow', 'log']
BIN = ['mul', 'div', 'add', 'sub', 'leq', 'geq', 'lt', 'gt', 'eq', 'neq', 'until', 'unless', 'since', 'and', 'or', 'implies', 'iff', 'xor']
BIN_IV = {'until', 'unless', 'since'}
IDS = ['a', 'b', 'c', 'd']
LITS = ['0', '1', '2.5', '10', '3e2']


def gen_iv(rng):
    lo = rng.randint(0, 3)
    hi = lo + rng.randint(0, 3)
    u = lambda: rng.choice(['-', '-', '-', 's'])
    return '((lit %d %s) (lit %d %s))' % (lo, u(), hi, u())


def gen(rng, depth):
    if depth <= 0 or rng.random() < 0.12:
        return '(id %s)' % rng.choice(IDS) if rng.random() < 0.75 else '(lit %s)' % rng.choice(LITS)
    r = rng.random()
    if r < 0.34:
        o = rng.choice(UN)
        iv = gen_iv(rng) if (o in UN_IV and rng.random() < 0.4) else '-'
        return '(un %s %s %s)' % (o, iv, gen(rng, depth - 1))
    if r < 0.40:
        return '(f1 %s %s)' % (rng.choice(F1), gen(rng, depth - 1))
    if r < 0.44:
        return '(f2 %s %s %s)' % (rng.choice(F2), gen(rng, depth - 1), gen(rng, depth - 1))
    o = rng.choice(BIN)
    iv = gen_iv(rng) if (o in BIN_IV and rng.random() < 0.4) else '-'
    return '(bin %s %s %s %s)' % (o, iv, gen(rng, depth - rng.choice([1, 1, 2])), gen(rng, depth - rng.choice([1, 1, 2])))


def tree_of(sx):
    toks = sx.replace('(', ' ( ').replace(')', ' ) ').split()
    pos = [0]

    def item():
        t = toks[pos[0]]
        pos[0] += 1
        if t == '(':
            out = []
            while toks[pos[0]] != ')':
                out.append(item())
            pos[0] += 1
            return out
        return t
    return item()


def to_fml(n):
    """the AST as a formula tuple of harness/fml.py (untyped; identifiers and literals as raw references)"""
    k = n[0]
    if k in ('id', 'lit'):
        return ('ref', n[1])
    bound = lambda t: t[1] if t[2] == '-' else t[1] + ' ' + t[2]
    if k == 'un':
        o, iv, a = n[1], n[2], to_fml(n[3])
        if o == 'neg':
            return ('a1', 'neg', a)
        nm = {'not': 'not', 'always': 'alw', 'eventually': 'ev', 'historically': 'hist', 'once': 'once', 'prev': 'prev', 'next': 'next',
              'sprev': 'sprev', 'snext': 'snext'}[o]
        return (nm, a) if iv == '-' else (nm + 't', bound(iv[0]), bound(iv[1]), a)
    if k == 'f1':
        return (n[1], to_fml(n[2])) if n[1] in ('rise', 'fall') else ('a1', n[1], to_fml(n[2]))
    if k == 'f2':
        return ('a2', n[1], to_fml(n[2]), to_fml(n[3]))
    o, iv, a, b = n[1], n[2], to_fml(n[3]), to_fml(n[4])
    if o in ('mul', 'div', 'add', 'sub'):
        return ('a2', o, a, b)
    if o in ('leq', 'geq', 'lt', 'gt', 'eq', 'neq'):
        return ('pred', o, a, b)
    return (o, a, b) if iv == '-' else (o + 't', bound(iv[0]), bound(iv[1]), a, b)


def paths_of(sx):
    """all node paths of the s-expression of an AST"""
    tree = tree_of(sx)
    out = []

    def walk(n, p):
        out.append(p)
        k = n[0]
        kids = {'id': [], 'lit': [], 'un': [n[3]] if k == 'un' else [], 'f1': [n[2]] if k == 'f1' else [],
                'f2': n[2:4] if k == 'f2' else [], 'bin': n[3:5] if k == 'bin' else []}[k]
        for i, c in enumerate(kids):
            walk(c, p + [i])
    walk(tree, [])
    return out


def unhex(h):
    return bytes.fromhex(h[1:]).decode()


def hexs(s):
    return 'x' + s.encode().hex()


def model(lines):
    p = subprocess.run([DRIVER], input='\n'.join(lines) + '\n', stdout=subprocess.PIPE, universal_newlines=True, timeout=3000)
    out = p.stdout.splitlines()
    assert len(out) == len(lines), (len(out), len(lines))
    return out


def rtamt_parse(txt, ltl=False):
    import rtamt
    from harness.impl import ast_dump, make_spec
    spec = make_spec({'monitor': 'ltl-discrete'}) if ltl else rtamt.StlDiscreteTimeSpecification()
    for v in IDS:
        spec.declare_var(v, 'float')
    spec.spec = txt
    try:
        spec.parse()
    except Exception as exc:  # noqa
        m = str(exc)
        return ('AMBIG' if 'Ambiguity ERROR' in m else 'EXC'), m[:120]
    return 'OK', ast_dump(spec.ast.specs[-1])


def main(n, seed):
    from harness import text
    text.load_levels()
    rng = random.Random(seed)
    cases = []
    for i in range(n):
        e = gen(rng, rng.choice([2, 3, 3, 4, 4, 5]))
        ex = []
        if i % 3 == 2:      # a third of the cases: extra pairs at random nodes (possibly several at one node)
            ps = paths_of(e)
            ex = [rng.choice(ps) for _ in range(rng.randint(1, 3))]
        cases.append((e, ex))
    lines = ['(rmin (%s) %s)' % (' '.join('(' + ' '.join(map(str, p)) + ')' for p in ex), e) for (e, ex) in cases]
    outs = model(lines)
    st = {'cases': 0, 'with_parens': 0, 'no_parens_at_all': 0, 'extra': 0, 'rtamt_ok': 0, 'rtamt_ambig': 0, 'model_ok': 0, 'drops': 0,
          'drops_rtamt_diff': 0, 'drops_rtamt_ambig': 0, 'drops_model_diff': 0, 'drops_agree': 0, 'prefix_paren': 0}
    st.update({'ltl_rtamt_ok': 0, 'ltl_ambig': 0, 'ltl_model_ok': 0, 'same_as_text_py': 0})
    bad = []
    droptexts = []
    ltl_lines = []
    for (e, ex), o in zip(cases, outs):
        f = dict((p.split(' ', 1) + [''])[:2] for p in o.split(' | '))
        if 'TEXT' not in f:
            bad.append(('driver', e, o))
            continue
        txt = unhex(f['TEXT'])
        st['cases'] += 1
        st['extra'] += bool(ex)
        st['prefix_paren'] += (not ex) and any(('( ' + k + ' ') in txt for k in ['-', 'not', 'always', 'eventually', 'historically', 'once', 'prev', 'next', 's_prev', 's_next'])
        st['with_parens' if '(' in txt.replace('abs (', '').replace('pow (', '') else 'no_parens_at_all'] += 1
        if not ex:
            # the minimal rendering of the model is the 'min' style of harness/text.py (the renderer the C15 check uses)
            r = text.Renderer(rng, style='min', aliases=False, seps=False, spaces=False)
            if ' '.join(r.toks(to_fml(tree_of(e)), 0, -1)) == txt:
                st['same_as_text_py'] += 1
            else:
                bad.append(('RENDER_MIN-VS-TEXT.PY', e, txt, ' '.join(r.toks(to_fml(tree_of(e)), 0, -1))))
        if f['WF'] != '1':
            bad.append(('generator: not wf', e, txt))
            continue
        want = text.parse_dump(f['AST'])
        if not f['MODEL'].startswith('OK ') or text.parse_dump(f['MODEL'][3:]) != want:
            bad.append(('MODEL-VS-AST', e, txt, f['MODEL']))
        else:
            st['model_ok'] += 1
        k, v = rtamt_parse(txt + ';')
        if k == 'AMBIG':
            st['rtamt_ambig'] += 1
        elif k != 'OK' or text.parse_dump(v) != want:
            bad.append(('RTAMT-VS-AST', e, txt, v, f['AST']))
        else:
            st['rtamt_ok'] += 1
        if '[' not in txt:
            # interval-free: the LTL front end (rtamt and model) must give the same AST
            k, v = rtamt_parse(txt + ';', ltl=True)
            if k == 'AMBIG':
                st['ltl_ambig'] += 1
            elif k != 'OK' or text.parse_dump(v) != want:
                bad.append(('RTAMT-LTL-VS-AST', e, txt, v, f['AST']))
            else:
                st['ltl_rtamt_ok'] += 1
            ltl_lines.append((e, txt, want))
        for d in f.get('DROPS', '').split():
            droptexts.append((e, txt, unhex(d), want))
    for (e, txt, want), ml in zip(ltl_lines, model(['(parse ltl s () %s)' % hexs(t + ';') for (_, t, _) in ltl_lines]) if ltl_lines else []):
        if ml.startswith('OK ') and text.parse_dump(ml[3:]) == want:
            st['ltl_model_ok'] += 1
        else:
            bad.append(('MODEL-LTL-VS-AST', e, txt, ml))
    # minimality: one needed pair removed
    dl = model(['(parse stl s () %s)' % hexs(d + ';') for (_, _, d, _) in droptexts]) if droptexts else []
    for (e, txt, d, want), ml in zip(droptexts, dl):
        st['drops'] += 1
        mast = text.parse_dump(ml[3:]) if ml.startswith('OK ') else ml
        if mast == want:
            bad.append(('MODEL: pair not needed', e, txt, d))
        else:
            st['drops_model_diff'] += 1
        k, v = rtamt_parse(d + ';')
        if k == 'AMBIG':
            st['drops_rtamt_ambig'] += 1
            continue
        rast = text.parse_dump(v) if k == 'OK' else 'RTAMT'
        if rast == want:
            bad.append(('RTAMT: pair not needed', e, txt, d))
        else:
            st['drops_rtamt_diff'] += 1
        if rast == mast:
            st['drops_agree'] += 1
        else:
            bad.append(('DROP: model and rtamt differ', d, ml, v))
    print(st)
    for b in bad[:20]:
        print('BAD', b)
    print('disagreements: %d' % len(bad))
    return 1 if bad else 0


if __name__ == '__main__':
    sys.exit(main(int(sys.argv[1]) if len(sys.argv) > 1 else 3000, int(sys.argv[2]) if len(sys.argv) > 2 else 20260926))
