# c19.py — C19: dense-time and discrete-time interpretations agree on sampled
# step signals at the sampling instants inside the settled region.
import json
import math
from harness import fml, dense
from harness.common import parse_fields
from harness.runner import Check, need_vars, expect_vals


def frag_formula(rng, nv, depth, P):
    """arithmetic, comparisons, Boolean, once/historically (bounded or not), bounded eventually/always; bounds multiples of P ticks"""
    g = fml.Gen(rng, nvars=nv, maxb=3, risefall=False, prevnext=False, unbounded_future=False, fancy_arith=False, raw_leaf=0.05)

    def ok(f):
        if f[0] in ('since', 'sincet', 'until', 'untilt'):
            return ('and', ok(fml.children(f)[0]), ok(fml.children(f)[1]))
        return fml.rebuild(f, [ok(c) for c in fml.children(f)])
    return ok(g.formula(depth))


def ramp(rng, n):
    """a trace of runs of rising / falling values"""
    col, v = [], rng.randint(-4, 6)
    while len(col) < n:
        step = rng.choice([1, 1, -1, -1, 0])
        for _ in range(rng.randint(2, 5)):
            v = max(-9, min(9, v + step))
            col.append(v)
        if rng.random() < 0.4:
            v = rng.randint(-6, 8)
    return col[:n]


UNIT_PAIRS = [(x, y) for x in ('s', 'ms', 'us') for y in ('s', 'ms', 'us') if x != y]


class C19(Check):
    PID = 'C19'
    RULE = ('seeded random formulas of the fragment (arithmetic, comparisons, Boolean, once/historically bounded or not, bounded eventually/always) with bounds '
            'that are multiples of the sampling period P in {0.5 s, 1 s}; a discrete trace of n <= 12 samples is evaluated by the discrete-time monitor and, as '
            'a step signal changing only at multiples of P, by the dense-time monitor; for every k with k + horizon < n the dense value at k*P must equal the '
            'discrete value at k; both are also compared with the models (rho, Dn); non-trivial = temporal operator and non-empty settled region; '
            'a quarter of the cases with bounded operators write the bounds with explicit units (both ends / one end only, s / ms / us); plus sqrt above a bounded future operator on traces of perfect squares; plus decimal sampling periods (0.1 s, 0.2 s, 0.01 s: time-stamps k*P and bounds that are not binary fractions); plus bounded operators with windows of 3-6 periods over ramp-shaped traces of 8-18 samples; '
            'plus bounds whose two ends carry DIFFERENT explicit units ([1s:3000ms], [0us,1500ms], [500ms:2s]: each end is converted with its own unit): every ordered pair of s / ms / us on '
            'each of once / historically / eventually / always with begin = 0 and begin > 0 directly over a threshold on a ramp-shaped trace of 12 samples, a third of the wide-window cases and a quarter of the unit-notation cases of the random stream '
            '(feature bounds_mixed_units); distinct by (formula, trace, P, unit notation)')

    def gen_cases(self, rng, tier):
        cases = []
        nrand = 300 if tier == 'quick' else 5000
        for i in range(nrand):
            nv = rng.choice([1, 2, 2])
            P = rng.choice([2, 4])
            f = frag_formula(rng, nv, rng.choice([1, 2, 2, 3]), P)
            if fml.size(f) > 25 or not fml.fvars(f):
                continue
            nv = need_vars(f, nv)
            n = rng.choice([1, 2, 3, 5, 8, 12])
            c = {'f': f, 'n': n, 'nv': nv, 'cols': fml.gen_trace(rng, nv, n), 'P': P}
            if (fml.ops(f) & (fml.TUN | fml.TBIN)) and rng.random() < 0.25:
                # the bounds in another unit notation (explicit units on both ends or on one end only; the default unit stays s)
                c['unit_style'] = [rng.choice(['both', 'begin', 'end', 'mixed']), rng.randrange(1 << 30)]
            cases.append(c)
        # decimal sampling periods (0.1 s, 0.2 s, 0.01 s): the time-stamps k*P and the bounds are not binary fractions
        X1 = ('pred', 'geq', ('var', 0), ('const', 1))
        decs = [(('alwt', 1, 1, ('var', 0)), 10, 100), (('evt', 1, 3, ('var', 0)), 10, 100), (('oncet', 1, 1, X1), 10, 100), (('histt', 2, 2, X1), 10, 200), (('evt', 1, 1, ('evt', 7, 7, ('var', 0))), 12, 100)]
        for (f, n, ms) in decs:
            for _ in range(2):
                cases.append({'f': f, 'n': n, 'nv': 1, 'cols': [[rng.randint(-4, 6) for _ in range(n)]], 'P': 2, 'dec_ms': ms})
        for i in range(nrand // 10):
            f = frag_formula(rng, 1, rng.choice([1, 2]), 2)
            if fml.size(f) > 14 or not fml.fvars(f) or not (fml.ops(f) & (fml.TUN | fml.TBIN)):
                continue
            n = rng.choice([5, 8, 12])
            cases.append({'f': f, 'n': n, 'nv': need_vars(f, 1), 'cols': fml.gen_trace(rng, need_vars(f, 1), n), 'P': 2, 'dec_ms': rng.choice([100, 200, 10])})
        # a partial arithmetic function above a bounded future operator: well defined at every settled sample, the discrete-time
        # evaluator pads the unsettled tail with -inf
        for k in range(3 if tier == 'quick' else 20):
            n = rng.choice([5, 8])
            col = [rng.choice([1, 4, 9, 16]) for _ in range(n)]
            f = [('pred', 'geq', ('a1', 'sqrt', ('evt', 1, 1, ('var', 0))), ('const', 2)), ('pred', 'leq', ('a1', 'sqrt', ('alwt', 1, 2, ('var', 0))), ('const', 3))][k % 2]
            cases.append({'f': f, 'n': n, 'nv': 1, 'cols': [col], 'P': 2, 'partial_pad': 1})
        # unbounded once / historically nested in each other (the dense visitors share a running value between the two)
        X1, Y0 = ('pred', 'geq', ('var', 0), ('const', 1)), ('pred', 'geq', ('var', 1), ('const', 0))
        for f in [('hist', ('implies', ('once', X1), Y0)), ('hist', ('hist', ('pred', 'geq', ('var', 1), ('a1', 'neg', ('const', 1))))), ('once', ('hist', X1)),
                  ('hist', ('or', X1, ('once', Y0))), ('once', ('and', Y0, ('hist', X1))), ('hist', ('once', ('hist', Y0))), ('once', ('once', X1))]:
            for _ in range(2):
                P = rng.choice([2, 4])
                n = rng.choice([4, 6, 9])
                cases.append({'f': f, 'n': n, 'nv': 2, 'cols': fml.gen_trace(rng, 2, n), 'P': P})
        # wide windows over ramp-shaped signals (runs of rising / falling values): the sliding-window algorithms have to
        # discard several dominated entries at once
        for i in range(nrand // 3):
            P = rng.choice([2, 4])
            w = rng.randint(3, 6)
            b = rng.choice([0, 0, 1, 2])
            X = ('pred', rng.choice(['geq', 'leq']), ('var', 0), ('const', rng.randint(0, 3)))
            f = (rng.choice(['evt', 'alwt', 'oncet', 'histt']), b, b + w, X)
            if rng.random() < 0.3:
                f = (rng.choice(['evt', 'alwt', 'oncet', 'histt']), 0, rng.randint(1, 2), f)
            n = rng.randint(8, 18)
            c = {'f': f, 'n': n, 'nv': 1, 'cols': [ramp(rng, n)], 'P': P}
            if rng.random() < 0.34:
                # the two ends of every window with different explicit units
                c['unit_style'] = ['mixed', rng.randrange(1 << 30)]
            cases.append(c)
        # the two ends of a window with different explicit units, every ordered pair of units, on every bounded operator of the fragment,
        # window [0, 2 periods] and [1, 3 periods], the operator directly over a threshold on a ramp (nothing masks its value)
        for op in ['oncet', 'histt', 'evt', 'alwt']:
            for i, (ub, ue) in enumerate(UNIT_PAIRS):
                for b in (0, 1):
                    X = ('pred', 'geq' if (i + b) % 2 else 'leq', ('var', 0), ('const', rng.randint(0, 3)))
                    cases.append({'f': (op, b, b + 2, X), 'n': 12, 'nv': 1, 'cols': [ramp(rng, 12)], 'P': [2, 4][(i + b) % 2],
                                  'unit_style': ['mixed', rng.randrange(1 << 30), [ub, ue]]})
        return cases

    def dense_f(self, c):
        P = c['P']

        def sc(f):
            if f[0] in fml.TUN or f[0] in fml.TBIN:
                return (f[0], P * f[1], P * f[2]) + tuple(sc(x) for x in f[3:])
            return fml.rebuild(f, [sc(x) for x in fml.children(f)])
        return sc(c['f'])

    def spec_text(self, c):
        P = c['P']
        if c.get('dec_ms'):
            # bounds in seconds, written as decimals (k periods of dec_ms milliseconds)
            return 'out = ' + fml.to_text(c['f'], lambda b, e: '[%s,%s]' % (repr(b * c['dec_ms'] / 1000.0), repr(e * c['dec_ms'] / 1000.0)))
        if c.get('unit_style'):
            import random
            from harness.densex import dense_bound
            style, seed = c['unit_style'][:2]
            units = c['unit_style'][2] if len(c['unit_style']) > 2 else None
            r = random.Random(seed)
            return 'out = ' + fml.to_text(c['f'], lambda b, e: dense_bound(r, P * b, P * e, 's', style, units))
        return 'out = ' + fml.to_text(c['f'], lambda b, e: dense.bound_text(P * b, P * e))

    def model_lines(self, c):
        sigs = [[[k * c['P'], col[k]] for k in range(c['n'])] for col in c['cols']]
        return ['(off std %s %d %s)' % (fml.to_sx(c['f']), c['n'], fml.trace_sx(c['cols'])), '(info %s)' % fml.to_sx(c['f']),
                '(dn std %s (%s))' % (fml.to_sx(self.dense_f(c)), ' '.join(dense.sig_sx(s) for s in sigs))]

    def impl_cases(self, c):
        P = c['P']
        used = fml.fvars(c['f'])
        per = [500, 'ms', 0.1] if P == 2 else [1, 's', 0.1]
        stamp = lambda k: k * P * dense.SCALE
        if c.get('dec_ms'):
            per = [c['dec_ms'], 'ms', 0.1]
            stamp = lambda k: k * (c['dec_ms'] / 1000.0)
        data = {'time': [stamp(k) for k in range(c['n'])]}
        for i in used:
            data[fml.VARS[i]] = list(c['cols'][i])
        disc = {'monitor': 'discrete-offline', 'vars': fml.VARS[:c['nv']], 'period': per, 'spec': self.spec_text(c), 'calls': [['evaluate', data]]}
        dn = {'monitor': 'dense-offline', 'vars': fml.VARS[:c['nv']], 'spec': self.spec_text(c),
              'calls': [['evaluate', [[fml.VARS[i], [[stamp(k), float(c['cols'][i][k])] for k in range(c['n'])]] for i in used]]]}
        return [disc, dn]

    def judge(self, c, mlines, ires):
        m = parse_fields(mlines[0])
        info = parse_fields(mlines[1])
        if 'ERROR' in m or mlines[2].startswith('ERROR'):
            return 'model-error', mlines
        if (m['EXACT'] != ['1'] or not dense.dn_exact(mlines[2])) and not c.get('partial_pad'):
            return 'dropped', None
        h = int(info['HOR'][0])
        rho = json.loads(json.dumps(expect_vals([fml.parse_val(x) for x in m['RHO']])))
        dnm = dense.parse_dn(mlines[2])
        P = c['P']
        det = {'P_s': P * dense.SCALE, 'horizon': h, 'spec': ires and None}
        vals = []
        for i in ires:
            if i['setup']['status'] != 'ok' or i['calls'][0]['status'] != 'ok':
                return 'violation', {'expected': 'both monitors evaluate', 'observed': i['setup'] if i['setup']['status'] != 'ok' else i['calls'][0]}
            vals.append(i['calls'][0]['value'])
        disc = [p[1] for p in vals[0]]
        dn = dense.from_impl(vals[1])
        if c.get('dec_ms'):
            # the dense result is read at the instants k * 0.1 s themselves (time in ticks of P/2 periods, as in the model)
            dn = [[t / (c['dec_ms'] / 1000.0) * P if t != math.inf else t, v] for t, v in vals[1]]
            dn = [[t, {'inf': math.inf, '-inf': -math.inf}.get(v, v)] for t, v in dn]
        settled = [k for k in range(c['n']) if k + h < c['n']]
        num = lambda v: math.inf if v == 'inf' else (-math.inf if v == '-inf' else v)
        for k in settled:
            dv = dense.den(dn, k * P)
            if dv != num(disc[k]):
                return 'violation', {'expected': 'dense value at k*P = discrete value at k', 'observed': {'k': k, 'discrete': disc[k], 'dense': dv},
                                     'discrete_signal': disc, 'dense_samples': vals[1], 'horizon': h}
            if dense.den(dnm, k * P) != num(rho[k]):
                return 'model-vs-spec', {'k': k, 'rho': rho[k], 'Dn': dense.den(dnm, k * P)}
        if disc != rho:
            return 'violation', {'expected': {'rho': rho}, 'observed': disc, 'note': 'discrete implementation differs from rho'}
        c['_settled'] = len(settled)
        return 'ok', None

    def features(self, c):
        fs = Check.features(self, c)
        if c.get('unit_style') and (fml.ops(c['f']) & (fml.TUN | fml.TBIN)):
            import re
            fs = fs + ['bounds_with_units']
            for m in re.finditer(r'\[[-0-9.e]+([a-z]*)[,:][-0-9.e]+([a-z]*)\]', self.spec_text(c)):
                if m.group(1) and m.group(2) and m.group(1) != m.group(2):
                    fs = fs + ['bounds_mixed_units']
                    break
        return fs

    def signature(self, c, detail):
        sig = Check.signature(self, c, detail)
        if c.get('dec_ms'):
            sig['shape'] = 'decimal_time_stamps'
        if c.get('partial_pad'):
            sig['shape'] = 'partial_function_over_padding'
        return sig

    def still_fails(self, model, c, shape=None):
        if c.get('dec_ms') or c.get('partial_pad'):
            return False, None
        if not fml.fvars(c['f']):
            # outside the generated class (every case has a variable): evaluate() of a dense-time specification without any signal fails by itself
            return False, None
        return Check.still_fails(self, model, c, shape)

    def nontrivial(self, c):
        return c.get('_settled', 0) > 0 and bool(fml.ops(c['f']) & {'once', 'hist', 'oncet', 'histt', 'evt', 'alwt'})

    def key(self, c):
        return json.dumps([fml.to_sx(c['f']), c['cols'], c['P'], c.get('dec_ms'), self.spec_text(c) if c.get('unit_style') else None])

    def describe(self, c):
        return {'spec': self.spec_text(c), 'P_s': c['P'] * dense.SCALE, 'trace': c['cols']}


def main(tier, seed, replay=None):
    return C19().main(tier, seed, replay)
